"""C06, extension `bigrace`: MULTIPROCESSING with LARGE tables and several requested sibling steps on one compute-framework object.

Input class.  One root group (a DataCreator that returns a table of 4-32 MB: "long" = 0.2-4 million int64 rows x a few columns, or
"wide" = fewer rows x 10-30 columns) and 2-5 derived sibling groups that depend only on root columns, at least two of them requested
(optionally the root columns themselves and a grandchild over two siblings are requested too).  All sibling steps are runnable at the
same time and share ONE compute-framework object; in MULTIPROCESSING they are queued back to back to the one worker process of that
object, which re-uploads the object's dataset to the Arrow Flight store under the same key (the object's uuid) after every requested
step, while the orchestrator downloads that key to collect the result of the step that finished just before.  With tables of this
size an upload lasts tens of milliseconds, i.e. several scheduler ticks, so downloads and re-uploads of one key really overlap (the
harness records begin/end of every Flight upload / download per key and process and tags each run with what it observed).  Shape
"xfw" adds the other reader of that key: a requested pandas consumer of a root column of a pyarrow root, whose transform step (own
worker process) downloads the root object's dataset while the root object's worker runs the sibling steps and re-uploads it.  Controls:
the same requests with tiny tables (1-40 rows: the transfer never outlasts a tick) and large linear chains (one step runnable at a
time: a download never meets an upload).

Oracle (C06's text): the same request on the same data returns the same multiset of result tables in SYNC, THREADING and every
repetition of MULTIPROCESSING, and no mode raises (or hangs) when SYNC does not.  Tables are compared through a cheap canonical
summary per column (name, row count, wrapping 64-bit sum, position-weighted wrapping sum, first and last value; columns sorted by name,
tables sorted).  SYNC itself is compared with an independent numpy evaluation of the request (no mloda code involved).

Every case runs in a child process (own private Flight server, own generated classes); children run in parallel; every
MULTIPROCESSING run is repeated (the interleaving is chosen by the OS).
"""
from __future__ import annotations

import json
import os
import subprocess
import sys
import threading
import time
from concurrent.futures import ThreadPoolExecutor
from typing import Any, Dict, List, Optional, Set, Tuple

import numpy as np

SUITES = {"bigrace"}
SUITE = "bigrace"

ASSUMPTIONS = [
    "bigrace: the interleaving of the orchestrator's downloads with a worker's re-uploads is chosen by the OS; it is sampled by repetition (every large sibling case runs MULTIPROCESSING 3-5 times in each of several children) and each run is tagged with the overlap that was really observed (Flight upload / download intervals per key, measured in the harness-side wrappers of FlightServer.upload_table / download_table)",
    "bigrace: result tables are compared through per-column summaries (name, row count, wrapping 64-bit sum, position-weighted wrapping sum, first and last value), not value by value",
    "bigrace: pandas sibling groups that extend the shared frame in place serialise their insertions with a lock (unsynchronised simultaneous inserts into one pandas frame are outside the property; groups that return a new table and overlap in THREADING are the known lost-update class of c06.py)",
]

MARK = "@@C06-BIGRACE@@"
RUN_TIMEOUT = 75.0
THREAD_LOST_UPDATE = "threading-overlapping-steps-on-shared-cfw"  # input class of the open finding F-C06-thread-lost-update (decided as in c06.py)

# ======================================================================================================================
# request generator (parent; specs are small JSON: columns are given by parameters, never by values)
# ======================================================================================================================


def _uid(rng: Any) -> str:
    return "%06x" % rng.randrange(16**6)


def gen_case(rng: Any, shape: str) -> Dict[str, Any]:
    """shape: "siblings" (the class), "xfw" (siblings on a pyarrow root + a requested pandas consumer of a root column: its transform step
    downloads the root object's dataset in another worker), "tiny" (sibling requests, 1-40 rows), "chain" (large, one step runnable at a time).
    A root column is a*i + b for i = 0..rows-1; a derived feature is ["mulc", p, c] | ["addc", p, c] | ["add", p, q] | ["sub", p, q]."""
    uid = _uid(rng)
    fw = rng.choice(["pd", "pd", "pa"]) if shape != "xfw" else "pa"
    nsrc = rng.randint(1, 3)
    if shape == "xfw" and rng.random() < 0.7:
        nsrc = 1  # (a root step with several features may not upload its data for the transform step at all: known finding of c06.py)
    if shape == "tiny":
        layout = "tiny"
        npad = rng.randint(0, 3)
        rows = rng.randint(1, 40)
    else:
        layout = rng.choice(["long", "long", "wide"])
        npad = rng.randint(0, 3) if layout == "long" else rng.randint(8, 28)
        mb = rng.choice([4, 8, 12, 16, 24, 32])
        rows = max(1000, (mb << 20) // (8 * (nsrc + npad)))
        rows += rng.randint(0, 999)
    src = [[f"r{uid}_{i}", rng.randint(1, 9), rng.randint(-50, 50)] for i in range(nsrc)]
    pad = [[f"p{uid}_{i}", rng.randint(1, 9), rng.randint(-50, 50)] for i in range(npad)]
    srcn = [c[0] for c in src]
    groups: List[Dict[str, Any]] = []
    request: List[str] = []

    def feat(parents: List[str]) -> Any:
        op = rng.choice(["mulc", "addc", "add", "sub"])
        p = rng.choice(parents)
        if op in ("mulc", "addc") or len(parents) < 2:
            return [op if op in ("mulc", "addc") else "addc", p, rng.randint(2, 9)]
        return [op, p, rng.choice([q for q in parents if q != p])]

    if shape == "chain":
        prev = [rng.choice(srcn)]
        for k in range(rng.randint(3, 4)):
            f = f"c{uid}_{k}"
            groups.append({"name": f"BRG{uid}_{k}", "style": fw == "pd" and rng.random() < 0.5, "feats": {f: [rng.choice(["mulc", "addc"]), prev[0], rng.randint(2, 9)]}})
            prev = [f]
            request.append(f)
    else:
        nsib = rng.randint(2, 5)
        style = fw == "pd" and rng.random() < 0.6  # True: the pandas frame is extended in place; False: a new table is returned
        sib: List[str] = []
        for k in range(nsib):
            feats = {}
            for j in range(1 if rng.random() < 0.75 else 2):
                feats[f"s{uid}_{k}_{j}"] = feat(srcn)
            groups.append({"name": f"BRG{uid}_{k}", "style": style, "feats": feats})
            sib.append(next(iter(feats)))
        want = [k for k in range(nsib) if rng.random() < 0.85]
        while len(want) < 2:
            want = sorted(set(want) | {rng.randrange(nsib)})
        for k in want:
            fs = list(groups[k]["feats"])
            request += fs if rng.random() < 0.7 else fs[:1]
        if rng.random() < 0.3:
            a, b = rng.sample(sib, 2)
            groups.append({"name": f"BRZ{uid}", "style": style, "feats": {f"z{uid}": [rng.choice(["add", "sub"]), a, b]}})
            request.append(f"z{uid}")
        if shape == "xfw":
            # a consumer of a root column on ANOTHER framework: its transform step (own worker process) downloads the root object's dataset
            # while the root object's worker runs the sibling steps and re-uploads that dataset
            groups.append({"name": f"BRX{uid}", "fw": "pd", "style": rng.random() < 0.5, "feats": {f"x{uid}": feat(srcn[:1])}})
            request.append(f"x{uid}")
    if rng.random() < 0.25:
        request += rng.sample(srcn, rng.randint(1, len(srcn)))
    rng.shuffle(request)
    return {"uid": uid, "shape": shape, "layout": layout, "fw": fw, "rows": rows, "root": {"name": f"BRR{uid}", "cols": src + pad}, "groups": groups, "request": request}


def root_mb(spec: Dict[str, Any]) -> float:
    return spec["rows"] * 8 * len(spec["root"]["cols"]) / float(1 << 20)


def requested_siblings(spec: Dict[str, Any]) -> int:
    """number of requested steps that depend on root columns only (runnable at the same time, one compute-framework object)"""
    rootc = {c[0] for c in spec["root"]["cols"]}
    req = set(spec["request"])
    return sum(1 for g in spec["groups"] if g.get("fw", spec["fw"]) == spec["fw"] and any(f in req for f in g["feats"]) and all(p in rootc for d in g["feats"].values() for p in _parents(d)))


def _parents(d: Any) -> List[str]:
    return [d[1]] if d[0] in ("mulc", "addc") else [d[1], d[2]]


# ======================================================================================================================
# summaries (shared) and the independent reference evaluation (parent)
# ======================================================================================================================

_W: Dict[int, Any] = {}


def col_summary(name: str, arr: Any) -> List[Any]:
    a = np.asarray(arr)
    n = int(a.shape[0])
    if a.dtype.kind not in "iu":
        bad = int(np.count_nonzero(a != a)) if a.dtype.kind == "f" else -1
        return [str(name), n, "dtype=" + str(a.dtype), bad, None, None]
    u = a.astype(np.int64, copy=False).view(np.uint64)
    w = _W.get(n)
    if w is None:
        _W.clear()
        w = _W[n] = (np.arange(n, dtype=np.uint64) % np.uint64(65521)) + np.uint64(1)
    return [str(name), n, int(u.sum(dtype=np.uint64)), int((u * w).sum(dtype=np.uint64)), int(a[0]) if n else None, int(a[-1]) if n else None]


def table_summary(t: Any) -> List[Any]:
    import pyarrow as pa

    if isinstance(t, pa.Table):
        cols = [(c, t.column(c).to_numpy()) for c in t.column_names]
    elif hasattr(t, "columns") and hasattr(t, "to_numpy"):
        cols = [(str(c), t[c].to_numpy()) for c in t.columns]
    else:
        return [["<table of type %s>" % type(t).__name__, 0, None, None, None, None]]
    return sorted(col_summary(c, v) for c, v in cols)


def canon(tables: List[Any]) -> List[Any]:
    return sorted(tables, key=lambda x: json.dumps(x))


def eval_feat(d: Any, col: Any) -> Any:
    if d[0] == "mulc":
        return col(d[1]) * np.int64(d[2])
    if d[0] == "addc":
        return col(d[1]) + np.int64(d[2])
    if d[0] == "add":
        return col(d[1]) + col(d[2])
    if d[0] == "sub":
        return col(d[1]) - col(d[2])
    raise ValueError(d)


def reference_tables(spec: Dict[str, Any]) -> List[Any]:
    """What the request means, evaluated with plain numpy: one table per group with a requested feature, holding exactly the
    requested features of that group."""
    i = np.arange(spec["rows"], dtype=np.int64)
    cols: Dict[str, Any] = {c: i * np.int64(a) + np.int64(b) for c, a, b in spec["root"]["cols"]}
    req = set(spec["request"])
    out = []
    rr = [c for c, _, _ in spec["root"]["cols"] if c in req]
    if rr:
        out.append(sorted(col_summary(c, cols[c]) for c in rr))
    for g in spec["groups"]:
        for f, d in g["feats"].items():
            cols[f] = eval_feat(d, lambda c: cols[c])
        fr = [f for f in g["feats"] if f in req]
        if fr:
            out.append(sorted(col_summary(f, cols[f]) for f in fr))
    return canon(out)


# ======================================================================================================================
# child: real classes, real runs, observation of the Flight transfers
# ======================================================================================================================

_INSERT_LOCK = threading.Lock()
_flight_wrapped = False


def _install_flight_observers() -> None:
    """begin/end events (with key, pid, monotonic time) around the client side of every Flight upload and download; installed in the
    child before any worker is forked, so the workers log too.  mloda's functions themselves are called unchanged."""
    global _flight_wrapped
    if _flight_wrapped:
        return
    _flight_wrapped = True
    from harness import fgfactory as F
    from harness import schedlib as S
    from mloda.core.runtime.flight.flight_server import FlightServer as FS

    S.install_step_observers()
    up0 = FS.upload_table
    dn0 = FS.download_table

    def upload_table(location: str, table: Any, table_key: str) -> None:
        try:
            nbytes = int(table.nbytes)
        except Exception:
            nbytes = -1
        F.log_event(ev="fup_b", key=str(table_key), nbytes=nbytes)
        try:
            return up0(location, table, table_key)
        finally:
            F.log_event(ev="fup_e", key=str(table_key))

    def download_table(location: str, table_key: Any) -> Any:
        F.log_event(ev="fdn_b", key=str(table_key))
        try:
            r = dn0(location, table_key)
        except BaseException as e:
            F.log_event(ev="fdn_x", key=str(table_key), err=repr(e)[:200])
            raise
        F.log_event(ev="fdn_e", key=str(table_key))
        return r

    FS.upload_table = staticmethod(upload_table)  # type: ignore[method-assign]
    FS.download_table = staticmethod(download_table)  # type: ignore[method-assign]


def build_classes(spec: Dict[str, Any]) -> Dict[str, Any]:
    import pandas as pd
    import pyarrow as pa
    from harness import fgfactory as F
    from mloda.core.abstract_plugins.feature_group import FeatureGroup
    from mloda.core.abstract_plugins.components.feature import Feature
    from mloda.core.abstract_plugins.components.input_data.creator.data_creator import DataCreator

    fwc = F.FW_SHORT[spec["fw"]]
    rows = int(spec["rows"])
    rcols = [(c, int(a), int(b)) for c, a, b in spec["root"]["cols"]]
    rnames = {c for c, _, _ in rcols}
    classes: Dict[str, Any] = {}

    def root_calc(cls: Any, data: Any, features: Any) -> Any:
        F.log_event(ev="begin", group=cls.__name__, root=True)
        i = np.arange(rows, dtype=np.int64)
        d = {c: i * np.int64(a) + np.int64(b) for c, a, b in rcols}  # the whole source table (like a reader that loads a file)
        res = pd.DataFrame(d) if spec["fw"] == "pd" else pa.table(d)
        F.log_event(ev="end", group=cls.__name__, root=True)
        return res

    ns: Dict[str, Any] = {
        "__module__": F.MODNAME,
        "input_data": classmethod(lambda cls: DataCreator(set(rnames))),
        "feature_names_supported": classmethod(lambda cls: set(rnames)),
        "calculate_feature": classmethod(root_calc),
        "compute_framework_rule": classmethod(lambda cls: {fwc}),
    }
    rc = type(spec["root"]["name"], (FeatureGroup,), ns)
    setattr(F.DYN, rc.__name__, rc)
    classes[rc.__name__] = rc

    def make(g: Dict[str, Any]) -> Any:
        feats = g["feats"]
        inplace = bool(g.get("style"))
        gfw = F.FW_SHORT[g.get("fw", spec["fw"])]

        def input_features(self: Any, options: Any, feature_name: Any) -> Optional[Set[Any]]:
            return {Feature(p) for p in _parents(feats[str(feature_name)])}

        def calc(cls: Any, data: Any, features: Any) -> Any:
            names = sorted(features.get_all_names())
            F.log_event(ev="begin", group=cls.__name__, root=False)
            is_pa = isinstance(data, pa.Table)

            def col(c: str) -> Any:
                return data.column(c).to_numpy() if is_pa else data[c].to_numpy()

            new = {n: eval_feat(feats[n], col) for n in names}
            if is_pa:
                res = data
                for n, v in new.items():
                    res = res.append_column(n, pa.array(v))
            elif inplace:
                with _INSERT_LOCK:  # threads share the frame: never two insertions at the same instant
                    for n, v in new.items():
                        data[n] = v
                res = data
            else:
                res = data.assign(**new)
            F.log_event(ev="end", group=cls.__name__, root=False)
            return res

        dn: Dict[str, Any] = {
            "__module__": F.MODNAME,
            "feature_names_supported": classmethod(lambda cls: set(feats)),
            "input_features": input_features,
            "calculate_feature": classmethod(calc),
            "compute_framework_rule": classmethod(lambda cls: {gfw}),
        }
        c = type(g["name"], (FeatureGroup,), dn)
        setattr(F.DYN, c.__name__, c)
        return c

    for g in spec["groups"]:
        classes[g["name"]] = make(g)
    return classes


def _intervals(events: List[Dict[str, Any]], b: str, e: Tuple[str, ...]) -> List[Tuple[str, int, int, int]]:
    """(key, pid, t_begin, t_end) of the transfers; an unfinished one ends at +inf"""
    open_: Dict[Tuple[str, int], int] = {}
    out = []
    for ev in events:
        k = (ev.get("key"), ev.get("pid"))
        if ev.get("ev") == b:
            open_[k] = ev["t"]  # type: ignore[index]
        elif ev.get("ev") in e and k in open_:
            out.append((k[0], k[1], open_.pop(k), ev["t"]))  # type: ignore[index]
    for k, t in open_.items():
        out.append((k[0], k[1], t, 1 << 62))
    return out  # type: ignore[return-value]


def observe(events: List[Dict[str, Any]], main_pid: int, groups: Set[str]) -> Dict[str, Any]:
    ups = _intervals(events, "fup_b", ("fup_e",))
    dns = _intervals(events, "fdn_b", ("fdn_e", "fdn_x"))
    per_key: Dict[str, int] = {}
    for k, _, _, _ in ups:
        per_key[k] = per_key.get(k, 0) + 1
    # a download of a key that begins while another process is uploading that key / whose transfer overlaps such an upload
    begins_inside = sum(1 for k, p, t0, _ in dns if any(k == k2 and p != p2 and u0 <= t0 <= u1 for k2, p2, u0, u1 in ups))
    overlaps = sum(1 for k, p, t0, t1 in dns if any(k == k2 and p != p2 and t0 <= u1 and u0 <= t1 for k2, p2, u0, u1 in ups))
    calc_pids = {e["pid"] for e in events if e.get("ev") == "begin" and e.get("group") in groups and not e.get("root")}
    nbytes = [e.get("nbytes", 0) for e in events if e.get("ev") == "fup_b"]
    updur = [(u1 - u0) / 1e6 for _, _, u0, u1 in ups if u1 < (1 << 61)]
    return {
        "uploads": len(ups),
        "downloads": len(dns),
        "max_uploads_per_key": max(per_key.values()) if per_key else 0,
        "dl_begins_inside_upload": begins_inside,
        "dl_overlaps_upload": overlaps,
        "one_worker": len(calc_pids) == 1 and main_pid not in calc_pids,
        "max_upload_mb": round(max(nbytes) / float(1 << 20), 1) if nbytes else 0.0,
        "max_upload_ms": round(max(updur), 1) if updur else 0.0,
    }


def _child_case(job: Dict[str, Any]) -> Dict[str, Any]:
    from harness import fgfactory as F
    from harness import schedlib as S
    from mloda.user import mloda, Feature

    spec = job["spec"]
    classes = build_classes(spec)
    sess = mloda.prepare([Feature(n) for n in spec["request"]], compute_frameworks={F.FW_SHORT[g.get("fw", spec["fw"])] for g in [{}] + spec["groups"]}, plugin_collector=F.collector(set(classes.values())))
    exp = S.export_plan(sess)
    gnames = {g["name"] for g in spec["groups"] if g.get("fw", spec["fw"]) == spec["fw"]}  # the groups on the root's compute-framework object
    mp_known = None  # input classes of open MULTIPROCESSING findings about transform steps, decided as in c06.py
    if any(st["kind"] == "tfs" and st["from"] != "PyArrowTable" for st in exp["steps"]):
        mp_known = "multiprocessing-transform-step-from-non-arrow-producer"
    elif S.mp_unuploaded_tfs_source(exp):
        mp_known = "multiprocessing-transform-source-not-uploaded"
    sspec = {"groups": [{"name": g["name"], "style": bool(g.get("style"))} for g in spec["groups"]]}
    runs = []
    for mode, rep in job["runs"]:
        fl0 = S.FLAKES["hangs_retried"]
        rr = S.run_session(sess, mode, timeout=RUN_TIMEOUT, attempts=2)
        r: Dict[str, Any] = {"mode": mode, "rep": rep, "wall": round(rr.wall, 2), "hang_retried": S.FLAKES["hangs_retried"] - fl0}
        if rr.timed_out:
            r["timeout"] = True
        elif rr.error is not None:
            r["error"] = {"type": rr.error_type, "msg": str(rr.error)[-600:]}
        else:
            r["tables"] = canon([table_summary(t) for t in (rr.results or [])])
        r["obs"] = observe(rr.events, os.getpid(), gnames)
        if mode == "mp":
            r["mp_known_class"] = mp_known
        if mode == "thread":
            ov = S.overlap_on_shared_fw(exp, rr.events)
            r["thread_overlap"] = ov
            r["thread_lost_update_class"] = bool(ov and not S.overlap_all_in_place(sspec, exp, rr.events))
        rr.results = None
        rr.exc = None
        runs.append(r)
    return {"runs": runs, "fg_steps": sum(1 for s in exp["steps"] if s["kind"] == "fg"), "result_steps": sum(1 for s in exp["steps"] if s.get("result")),
            "other_steps": sum(1 for s in exp["steps"] if s["kind"] != "fg")}  # fmt: skip


def _child_main() -> None:
    import logging

    logging.disable(logging.CRITICAL)
    threading.excepthook = lambda args: None
    jobs = json.loads(sys.stdin.read())
    from harness import schedlib as S

    _install_flight_observers()
    outs = []
    for job in jobs:
        try:
            o = _child_case(job)
        except BaseException:  # noqa
            import traceback

            o = {"crash": traceback.format_exc()[-2500:], "runs": []}
        outs.append(o)
    S.stop_flight_server()
    sys.stdout.write(MARK + json.dumps(outs, default=str) + MARK)
    sys.stdout.flush()
    os._exit(0)


# ======================================================================================================================
# parent: children, oracle
# ======================================================================================================================


def run_children(batches: List[List[Dict[str, Any]]], par: int) -> List[List[Dict[str, Any]]]:
    from harness.core import env_for_subprocess, VERIF

    def one(i: int) -> List[Dict[str, Any]]:
        last = ""
        for attempt in range(2):  # a child that dies without a report (port clash, fork flake) is started once more
            env = env_for_subprocess()
            env.pop("VERIF_EVENT_LOG", None)
            nruns = sum(len(j["runs"]) for j in batches[i])
            try:
                p = subprocess.run(["/venv/bin/python", "-m", "harness.corr.c06_bigrace", "--child"], input=json.dumps(batches[i]), cwd=str(VERIF), env=env,
                                   stdout=subprocess.PIPE, stderr=subprocess.PIPE, text=True, timeout=60 + 20 * nruns)  # fmt: skip
            except subprocess.TimeoutExpired as e:
                last = f"child timed out: {e}"
                continue
            if p.stdout.count(MARK) == 2:
                return list(json.loads(p.stdout.split(MARK)[1]))
            last = f"rc={p.returncode} stderr={p.stderr[-1500:]}"
        raise RuntimeError(f"C06 bigrace child {i} produced no report: {last}")

    with ThreadPoolExecutor(max_workers=max(1, par)) as ex:
        return list(ex.map(one, range(len(batches))))


def outcome(r: Dict[str, Any]) -> Dict[str, Any]:
    if r.get("timeout"):
        return {"timeout": True}
    if r.get("error"):
        return {"error": True}
    return {"tables": r["tables"]}


def _mb_bucket(mb: float) -> str:
    for lim in (1, 6, 12, 20, 28):
        if mb < lim:
            return f"<{lim}MB"
    return ">=28MB"


def judge(ctx: Any, job: Dict[str, Any], rep: Dict[str, Any]) -> None:
    spec = job["spec"]
    if rep.get("crash"):
        raise RuntimeError("C06 bigrace child crashed:\n" + rep["crash"])
    ref = {"tables": reference_tables(spec)}
    nsib = requested_siblings(spec)
    mb = root_mb(spec)
    base: Optional[Dict[str, Any]] = None
    for r in rep["runs"]:
        mode = r["mode"]
        case = {"spec": spec, "mode": mode, "rep": r["rep"]}
        got = outcome(r)
        o = r["obs"]
        in_class = mode == "mp" and spec["shape"] in ("siblings", "xfw") and nsib >= 2 and o["one_worker"] and o["max_uploads_per_key"] >= 2
        hit = in_class and o["dl_overlaps_upload"] >= 1
        tags: Dict[str, Any] = dict(br_shape=spec["shape"], br_mode=mode, br_fw=spec["fw"], br_layout=spec["layout"], br_root_table=_mb_bucket(mb), br_requested_siblings=min(nsib, 5),
                                    br_inplace=bool(spec["groups"][0].get("style")), br_outcome=next(iter(got)))  # fmt: skip
        if mode == "mp":
            tags.update(br_mp_one_worker=o["one_worker"], br_mp_uploads_of_one_key=min(o["max_uploads_per_key"], 6), br_mp_download_overlaps_reupload=min(o["dl_overlaps_upload"], 3),
                        br_mp_download_begins_inside_reupload=min(o["dl_begins_inside_upload"], 3), br_mp_largest_upload=_mb_bucket(o["max_upload_mb"]),
                        br_mp_longest_upload_ms=("<10" if o["max_upload_ms"] < 10 else "<30" if o["max_upload_ms"] < 30 else "<100" if o["max_upload_ms"] < 100 else ">=100"),
                        br_class_hit=("yes" if hit else "in-class-no-overlap" if in_class else "control"))  # fmt: skip
        ctx.case(SUITE, case, hit, **tags)
        if r.get("hang_retried"):
            ctx.tag("br_hang_retried", mode, r["hang_retried"])
        shown = r.get("error") or got
        if mode == "sync":
            base = got
            if got != ref:
                ctx.violation(SUITE, case, "SYNC result differs from the independent evaluation of the request (" + next(iter(got)) + ")", shown, ref)
            continue
        assert base is not None
        if got != base:
            fclass = THREAD_LOST_UPDATE if (mode == "thread" and r.get("thread_lost_update_class")) else r.get("mp_known_class") if mode == "mp" else None
            what = f"result in mode {mode} (run {r['rep']}) differs from SYNC ({next(iter(got))} vs {next(iter(base))}): {spec['shape']} request, {nsib} requested sibling steps on one {spec['fw']} object, root table {mb:.0f} MB"
            if mode == "mp":
                what += f"; uploads of one key: {o['max_uploads_per_key']}, downloads overlapping a re-upload: {o['dl_overlaps_upload']}"
            ctx.violation(SUITE, case, what, shown, base, finding_class=fclass)


def plan_jobs(ctx: Any) -> List[Dict[str, Any]]:
    nbig = ctx.budget(8, 64)
    nxfw = ctx.budget(3, 20)
    nchain = ctx.budget(2, 10)
    ntiny = ctx.budget(4, 24)
    reps = 3 if ctx.quick else 5
    jobs = []
    for shape, n in (("siblings", nbig), ("xfw", nxfw), ("chain", nchain), ("tiny", ntiny)):
        for _ in range(n):
            spec = gen_case(ctx.rng, shape)
            runs = [["sync", 0], ["thread", 0]] + [["mp", i] for i in range(reps if shape != "tiny" else 2)]
            jobs.append({"spec": spec, "runs": runs})
    return jobs


def _cost(job: Dict[str, Any]) -> float:
    return (0.3 + root_mb(job["spec"]) / 40.0) * len(job["runs"])


def execute(ctx: Any, jobs: List[Dict[str, Any]], par: int) -> None:
    nb = max(1, min(len(jobs), par if ctx.quick else par * 3))
    batches: List[List[Dict[str, Any]]] = [[] for _ in range(nb)]
    load = [0.0] * nb
    where = []
    for j in sorted(range(len(jobs)), key=lambda j: -_cost(jobs[j])):
        b = load.index(min(load))
        where.append((j, b, len(batches[b])))
        batches[b].append(jobs[j])
        load[b] += _cost(jobs[j])
    t0 = time.time()
    outs = run_children(batches, par)
    ctx.extra["bigrace_wall_s"] = round(time.time() - t0, 1)
    for j, b, k in sorted(where):
        judge(ctx, jobs[j], outs[b][k])


def run(ctx: Any) -> None:
    ctx.extra["bigrace_rule"] = (
        "generated requests with one root table of 4-32 MB (long or wide) and 2-5 sibling groups over root columns, >= 2 of them requested (+ optional requested root "
        "columns / grandchild / a requested consumer on a second framework behind a transform step), on pandas or pyarrow; each runs SYNC, THREADING and 3-5 x MULTIPROCESSING in a child process with a private Flight server; per-column "
        "summaries of the returned tables must equal SYNC's (and SYNC's an independent numpy evaluation); controls: tiny tables, large chains; non-trivial = a "
        "MULTIPROCESSING run in which all sibling steps ran in one worker, the object's key was uploaded >= 2 times and a download overlapped a re-upload of that key"
    )
    execute(ctx, plan_jobs(ctx), par=int(os.environ.get("VERIF_BIGRACE_PAR", "5")))


def search(ctx: Any, broken: List[str]) -> None:
    run(ctx)


def replay(ctx: Any, body: Dict[str, Any]) -> None:
    case = body.get("case") or {}
    spec = case.get("spec")
    if not spec:
        run(ctx)
        return
    runs = [["sync", 0], ["thread", 0]] + [["mp", i] for i in range(6)]
    execute(ctx, [{"spec": spec, "runs": runs} for _ in range(3)], par=3)


if __name__ == "__main__":
    if "--child" in sys.argv:
        _child_main()
