"""C17 extension `override`: the declared-type check is the FRAMEWORK's job, whatever a feature group overrides.

The property quantifies over every feature group.  A feature group may legally override the documented extension points around
validation - `validate_input_features`, `validate_output_features` (returning True / None / False, raising, with or without
calling super()), `return_data_type_rule`, `set_feature_name`, `artifact()` - it may be assembled by plain subclassing, through
an intermediate base class or a mixin, or through `DynamicFeatureGroupCreator.create(properties=...)`, and a run may carry
`Extender`s wrapping VALIDATE_OUTPUT_FEATURE / VALIDATE_INPUT_FEATURE / FEATURE_GROUP_CALCULATE_FEATURE (which may or may not
call the wrapped hook).  None of this is mentioned in the property as an exception: a run fails with a data-type mismatch
error exactly when the produced column is incompatible with the declared type under the documented lenient table (default)
or strict table (strict via feature option in group / context, strict via the API flag).  The main module only ever builds
groups that override nothing, so a check that lives inside an overridable hook passes it unnoticed.

The module GENERATES feature-group shapes (`gen_shape`) x (declared, produced) pairs x enforcement mode x typed/untyped mix,
runs the real `mloda.run_all` on PyArrow (SYNC) and judges with the documented tables (`doc_lenient` / `doc_strict` of c17.py).

suites
  ovr_matrix  the full 11x11 (declared, produced) matrix x {lenient, strict option (group / context), strict API flag} for each of the base
              shapes: plain group, group overriding validate_output_features without super() (returns True or None), group built
              by DynamicFeatureGroupCreator with a `validate_output_features` property, plain group run with an extender around
              VALIDATE_OUTPUT_FEATURE (passing through / not calling the hook at all).
  ovr_random  random shapes over all the axes above (position root / derived, how the class is built, which hooks are
              overridden and what they return, where the type is declared: request / group rule / both / conflicting, renaming
              set_feature_name, custom artifact, extenders), pairs biased to the lenient-compatible region.
Both suites ask the Lean model (`C17.validate`) the same question for the table the group produces and compare.
"""
from __future__ import annotations

import re
from typing import Any, Callable, Dict, List, Optional, Set, Tuple

import pyarrow as pa

from harness import fgfactory as F
from harness.core import Ctx
from harness.corr.c17 import doc_lenient, doc_strict, sample_values

SUITES = {"ovr_matrix", "ovr_random"}
ASSUMPTIONS = [
    "override: PyArrow compute framework, SYNC mode (typed features on other frameworks are the known finding F-C17-nonarrow); "
    "a custom validate_output_features that itself fails (returns False / raises) on a type-COMPATIBLE column makes the run fail with "
    "that custom error (not a mismatch error); on an incompatible column the mismatch error is expected (the built-in check is not the hook's business)",
    "override: a type declared only by the feature group's return_data_type_rule is a declared type (Engine.set_data_type puts it on the feature)",
]

NAMES = ["INT32", "INT64", "FLOAT", "DOUBLE", "BOOLEAN", "STRING", "BINARY", "DATE", "TIMESTAMP_MILLIS", "TIMESTAMP_MICROS", "DECIMAL"]
MODES = ["lenient", "option", "option_context", "api"]
CUSTOM_MARK = "OVR_CUSTOM_VALIDATION_FAILED"
FINDING_RULE_API = "api-strict-flag-on-group-declared-type"

Case = Dict[str, Any]


# --------------------------------------------------------------------------------------------------------------------
# oracle (property text + documented tables)


def effective_declared(c: Case) -> Optional[str]:
    return None if c["declare"] == "none" else c["d"]


def expected(c: Case) -> str:
    if c["declare"] == "conflict":
        return "conflict"  # request and feature group declare different types: rejected at prepare time
    d = effective_declared(c)
    if d is not None:
        ok = doc_strict(d, c["a"]) if c["mode"] != "lenient" else doc_lenient(d, c["a"])
        if not ok:
            return "mismatch"
    if c["vout"] in ("false", "raise") and c["ext"] != "swallow":
        return "custom"
    return "ok"


def acceptable(c: Case) -> Set[str]:
    """outcomes the property allows.  One situation has two legitimate answers: the group's own output validation fails (vout false /
    raise) AND the declared column is incompatible AND an untyped sibling is requested too - the sibling may be computed in a step
    of its own (different options), whose custom validation error may surface before the typed step's mismatch error."""
    exp = expected(c)
    if exp == "mismatch" and c["mix"] and c["vout"] in ("false", "raise") and c["ext"] != "swallow":
        return {"mismatch", "custom"}
    return {exp}


def in_rule_api_class(c: Case, impl: str) -> bool:
    """narrow class of the finding F-C17-rule-api: the type is declared ONLY by the group's return_data_type_rule, strictness
    comes ONLY from the per-call API flag, the pair is lenient-compatible but not strict-compatible, and the run behaved exactly
    as the property demands for the LENIENT table (i.e. the per-call flag did not reach the group-declared feature)."""
    return (
        c["declare"] == "rule_only"
        and c["mode"] == "api"
        and doc_lenient(c["d"], c["a"])
        and not doc_strict(c["d"], c["a"])
        and impl == expected({**c, "mode": "lenient"})
    )


# --------------------------------------------------------------------------------------------------------------------
# generators


def gen_pair(rng: Any) -> Tuple[str, str]:
    a = rng.choice(NAMES)
    r = rng.random()
    if r < 0.15:
        return a, a
    if r < 0.5:
        return rng.choice([k for k in NAMES if doc_lenient(k, a)]), a
    return rng.choice(NAMES), a


def gen_shape(rng: Any) -> Dict[str, Any]:
    return {
        "pos": rng.choice(["root", "root", "derived"]),
        "build": rng.choice(["type", "type", "subclass", "mixin", "factory", "factory", "factory_ext"]),
        "vout": rng.choice([None, "true", "true", "none", "none", "super", "false", "raise"]),
        "vin": rng.choice([None, None, "true", "none"]),
        "setname": rng.random() < 0.25,
        "artifact": rng.random() < 0.2,
        "ext": rng.choice([None, None, None, "pass", "swallow", "two", "all_hooks", "input_only"]),
    }


def gen_case(rng: Any) -> Case:
    d, a = gen_pair(rng)
    c: Case = {"d": d, "a": a, "mode": rng.choice(["lenient", "lenient", "option", "option_context", "api", "api"])}
    c["declare"] = rng.choice(["request"] * 5 + ["rule_same", "rule_only", "rule_only", "rule_none", "none", "conflict"])
    if c["declare"] == "conflict":
        c["conflict_with"] = rng.choice([k for k in NAMES if k != d])
    c["mix"] = rng.random() < 0.4
    c["u_type"] = rng.choice(NAMES)
    c["u_opt"] = rng.random() < 0.4
    c.update(gen_shape(rng))
    return c


BASE_SHAPES: Dict[str, Dict[str, Any]] = {
    "plain": {"build": "type", "vout": None, "ext": None},
    "vout_nosuper": {"build": "type", "vout": "true|none", "ext": None},
    "factory_vout": {"build": "factory", "vout": "true|none", "ext": None},
    "ext_pass": {"build": "type", "vout": None, "ext": "pass"},
    "ext_swallow": {"build": "type", "vout": None, "ext": "swallow"},
}


def matrix_case(rng: Any, base: str, d: str, a: str, mode: str) -> Case:
    sh = BASE_SHAPES[base]
    vout = sh["vout"]
    if vout == "true|none":
        vout = rng.choice(["true", "none"])
    return {
        "d": d, "a": a, "mode": mode, "declare": "request", "mix": rng.random() < 0.3, "u_type": rng.choice(NAMES), "u_opt": rng.random() < 0.3,
        "pos": "root", "build": sh["build"], "vout": vout, "vin": None, "setname": False, "artifact": False, "ext": sh["ext"], "base": base,
    }  # fmt: skip


# --------------------------------------------------------------------------------------------------------------------
# building the real feature group of a case


class _Built:
    def __init__(self) -> None:
        self.groups: Set[Any] = set()
        self.extenders: Set[Any] = set()
        self.calls: Dict[str, int] = {"vout": 0, "vin": 0, "ext": 0, "rule": 0, "setname": 0, "artifact": 0}


def _make_extender(hooks: Set[Any], swallow: bool, calls: Dict[str, int], priority: int = 100) -> Any:
    from mloda.core.abstract_plugins.function_extender import Extender

    class OvrExt(Extender):
        def wraps(self) -> Set[Any]:
            return hooks

        def __call__(self, func: Any, *args: Any, **kwargs: Any) -> Any:
            calls["ext"] += 1
            if swallow:
                return None  # an observer that never runs the wrapped hook
            return func(*args, **kwargs)

    e = OvrExt()
    e.priority = priority
    return e


def build(c: Case) -> _Built:
    from mloda.core.abstract_plugins.components.data_types import DataType
    from mloda.core.abstract_plugins.components.feature import Feature
    from mloda.core.abstract_plugins.components.feature_name import FeatureName
    from mloda.core.abstract_plugins.components.base_artifact import BaseArtifact
    from mloda.core.abstract_plugins.components.input_data.creator.data_creator import DataCreator
    from mloda.core.abstract_plugins.feature_group import FeatureGroup
    from mloda.core.abstract_plugins.function_extender import ExtenderHook
    from mloda_plugins.compute_framework.base_implementations.pyarrow.table import PyArrowTable
    from mloda_plugins.feature_group.experimental.dynamic_feature_group_factory.dynamic_feature_group_factory import DynamicFeatureGroupCreator

    b = _Built()
    calls = b.calls
    types = {"x": DataType.to_arrow_type(DataType[c["a"]]), "u": DataType.to_arrow_type(DataType[c["u_type"]])}
    real = ["x", "u"]
    accepted = real + (["alias_x", "alias_u"] if c["setname"] else [])
    holder: Dict[str, Any] = {}  # the class that owns the overriding hooks (for super())

    # -- what the group computes ---------------------------------------------------------------------
    def calc(cls: Any, data: Any, features: Any) -> Any:
        if c["artifact"] and features.artifact_to_save:
            features.save_artifact = "ovr-artifact"
        want = sorted(features.get_all_names())
        if c["pos"] == "root":
            return pa.table({n: pa.array(sample_values(types[n]), type=types[n]) for n in want})
        for n in want:
            data = data.append_column(n, pa.array(sample_values(types[n]), type=types[n]))
        return data

    # -- the overridden extension points ---------------------------------------------------------------
    hooks: Dict[str, Any] = {}  # name -> plain function; wrapped as classmethod / staticmethod / method per build
    kinds: Dict[str, str] = {}

    if c["vout"] is not None:

        def validate_output_features(cls: Any, data: Any, features: Any) -> Optional[bool]:
            calls["vout"] += 1
            if data.num_rows != 2:  # a custom output validation, nothing to do with types
                raise ValueError("expected exactly two rows")
            if c["vout"] == "super":
                super(holder["cls"], cls).validate_output_features(data, features)
                return True
            if c["vout"] == "raise":
                raise ValueError(CUSTOM_MARK)
            return {"true": True, "none": None, "false": False}[c["vout"]]

        hooks["validate_output_features"] = validate_output_features
        kinds["validate_output_features"] = "cls"

    if c["vin"] is not None:

        def validate_input_features(cls: Any, data: Any, features: Any) -> Optional[bool]:
            calls["vin"] += 1
            return True if c["vin"] == "true" else None

        hooks["validate_input_features"] = validate_input_features
        kinds["validate_input_features"] = "cls"

    if c["declare"] in ("rule_same", "rule_only", "rule_none", "conflict"):
        ruled = {"rule_same": c["d"], "rule_only": c["d"], "rule_none": None, "conflict": c.get("conflict_with")}[c["declare"]]

        def return_data_type_rule(cls: Any, feature: Any) -> Any:
            calls["rule"] += 1
            return DataType[ruled] if (ruled is not None and str(feature.name) in ("x", "alias_x")) else None

        hooks["return_data_type_rule"] = return_data_type_rule
        kinds["return_data_type_rule"] = "cls"

    if c["setname"]:

        def set_feature_name(self: Any, config: Any, feature_name: Any) -> Any:
            calls["setname"] += 1
            s = str(feature_name)
            return FeatureName(s[len("alias_") :]) if s.startswith("alias_") else feature_name

        hooks["set_feature_name"] = set_feature_name
        kinds["set_feature_name"] = "self"

    if c["artifact"]:

        class OvrArtifact(BaseArtifact):
            @classmethod
            def custom_saver(cls, features: Any, artifact: Any) -> Any:
                calls["artifact"] += 1
                return {"saved": artifact}

        def artifact() -> Any:
            return OvrArtifact

        hooks["artifact"] = artifact
        kinds["artifact"] = "static"

    def wrap(name: str) -> Any:
        k = kinds[name]
        return classmethod(hooks[name]) if k == "cls" else staticmethod(hooks[name]) if k == "static" else hooks[name]

    wrapped = {n: wrap(n) for n in hooks}

    # -- assembling the class --------------------------------------------------------------------------
    base_root: Optional[Any] = None
    mk: Dict[str, Any] = {}
    if c["pos"] == "root":
        mk["root_data"] = {n: [0, 0] for n in accepted}
    else:
        base_root = F.make_group(F.uniq("T17oB_"), root_data={"b": [1, 2]}, frameworks={PyArrowTable})
        mk["derived"] = {n: {"parents": ["b"], "expr": ["col", "b"]} for n in accepted}
        b.groups.add(base_root)

    build_kind = c["build"]
    if build_kind == "type":
        cls = F.make_group(F.uniq("T17o_"), frameworks={PyArrowTable}, extra={"calculate_feature": classmethod(calc), **wrapped}, **mk)
        holder["cls"] = cls
    elif build_kind == "subclass":
        base = type(F.uniq("T17oBase_"), (FeatureGroup,), {"__module__": F.MODNAME, **wrapped})
        setattr(F.DYN, base.__name__, base)
        holder["cls"] = base
        cls = F.make_group(F.uniq("T17o_"), frameworks={PyArrowTable}, bases=(base,), extra={"calculate_feature": classmethod(calc)}, **mk)
    elif build_kind == "mixin":
        mixin = type(F.uniq("T17oMixin_"), (), {"__module__": F.MODNAME, **wrapped})
        setattr(F.DYN, mixin.__name__, mixin)
        holder["cls"] = mixin
        cls = F.make_group(F.uniq("T17o_"), frameworks={PyArrowTable}, bases=(mixin, FeatureGroup), extra={"calculate_feature": classmethod(calc)}, **mk)
    elif build_kind == "factory_ext":
        # "extending existing feature groups with custom behavior": the factory subclasses a finished group, the properties add the hooks
        inner = F.make_group(F.uniq("T17oInner_"), frameworks={PyArrowTable}, extra={"calculate_feature": classmethod(calc)}, **mk)
        props: Dict[str, Any] = dict(hooks)  # the factory calls properties[name](cls|self, ...) resp. properties["artifact"]()
        cls = DynamicFeatureGroupCreator.create(props, class_name=F.uniq("T17oDyn_"), feature_group_cls=inner)
        holder["cls"] = cls
    elif build_kind == "factory":
        props = dict(hooks)
        props["calculate_feature"] = calc
        props["compute_framework_rule"] = lambda: {PyArrowTable}
        if c["pos"] == "root":
            props["input_data"] = lambda: DataCreator(set(accepted))
        else:
            props["match_feature_group_criteria"] = lambda cls_, feature_name, options, dac=None: str(feature_name) in accepted
            props["input_features"] = lambda self, options, feature_name: {Feature("b")}
        cls = DynamicFeatureGroupCreator.create(props, class_name=F.uniq("T17oDyn_"))
        holder["cls"] = cls
    else:
        raise ValueError(build_kind)
    b.groups.add(cls)

    # -- extenders ---------------------------------------------------------------------------------------
    ext = c["ext"]
    H = ExtenderHook
    if ext == "pass":
        b.extenders = {_make_extender({H.VALIDATE_OUTPUT_FEATURE}, False, calls)}
    elif ext == "swallow":
        b.extenders = {_make_extender({H.VALIDATE_OUTPUT_FEATURE}, True, calls)}
    elif ext == "two":
        b.extenders = {_make_extender({H.VALIDATE_OUTPUT_FEATURE}, False, calls, 10), _make_extender({H.VALIDATE_OUTPUT_FEATURE, H.VALIDATE_INPUT_FEATURE}, False, calls, 20)}
    elif ext == "all_hooks":
        b.extenders = {_make_extender({H.VALIDATE_OUTPUT_FEATURE, H.VALIDATE_INPUT_FEATURE, H.FEATURE_GROUP_CALCULATE_FEATURE}, False, calls)}
    elif ext == "input_only":
        b.extenders = {_make_extender({H.VALIDATE_INPUT_FEATURE}, False, calls)}
    return b


# --------------------------------------------------------------------------------------------------------------------
# running one case on the real code


_MM = re.compile(r"Feature '([^']*)': declared (\w+), got (\w+), coercion not supported")


def run_case(c: Case) -> Tuple[str, Optional[Dict[str, str]], Dict[str, int]]:
    dyn_before = set(vars(F.DYN))
    try:
        b = build(c)
        return _run_built(c, b)
    finally:
        _forget_classes(dyn_before)


_cleanups = [0]


def _forget_classes(dyn_before: Set[str]) -> None:
    """mloda walks FeatureGroup.__subclasses__() on every run, so thousands of generated classes make every later run slower
    (quadratic).  The classes of a finished case are only referenced from the registry module `verif_dyn` and from the factory's
    class cache; drop OUR entries (names created during this case / our class-name prefix) so that they can be collected."""
    import gc

    from mloda_plugins.feature_group.experimental.dynamic_feature_group_factory.dynamic_feature_group_factory import DynamicFeatureGroupCreator

    for k in set(vars(F.DYN)) - dyn_before:
        delattr(F.DYN, k)
    for k in [k for k in DynamicFeatureGroupCreator._created_classes if k.startswith("T17oDyn_")]:
        del DynamicFeatureGroupCreator._created_classes[k]
    _cleanups[0] += 1
    if _cleanups[0] % 200 == 0:
        gc.collect()


def _run_built(c: Case, b: _Built) -> Tuple[str, Optional[Dict[str, str]], Dict[str, int]]:
    from mloda.core.abstract_plugins.components.data_types import DataType
    from mloda.core.abstract_plugins.components.feature import Feature
    from mloda.core.abstract_plugins.components.options import Options
    from mloda.user import mloda
    from mloda_plugins.compute_framework.base_implementations.pyarrow.table import PyArrowTable

    def opts(strict: bool) -> Any:
        if not strict:
            return {}
        if c["mode"] == "option":
            return {"strict_type_enforcement": True}
        if c["mode"] == "option_context":
            return Options(context={"strict_type_enforcement": True})
        return {}

    pre = "alias_" if c["setname"] else ""
    req_typed = c["declare"] in ("request", "rule_same", "rule_none", "conflict")
    feats: List[Any] = [Feature(pre + "x", options=opts(True), data_type=DataType[c["d"]] if req_typed else None)]
    want = ["x"]
    if c["mix"]:
        feats.append(Feature(pre + "u", options=opts(c["u_opt"])))
        want.append("u")
    detail: Optional[Dict[str, str]] = None
    try:
        res = mloda.run_all(
            feats,
            compute_frameworks={PyArrowTable},
            plugin_collector=F.collector(b.groups),
            function_extender=b.extenders or None,
            strict_type_enforcement=(c["mode"] == "api"),
        )
        impl = "ok"
        got = sorted(sum([F.columns_of(r) for r in res], []))
        if got != sorted(want):
            impl = f"ok-but-columns {got}"
    except Exception as e:  # mloda wraps step errors in Exception(traceback text)
        s = repr(e) + str(e)
        if "DataTypeMismatchError" in s or "coercion not supported" in s:
            impl = "mismatch"
            m = _MM.search(s)
            if m:
                detail = {"col": m.group(1), "declared": m.group(2), "actual": m.group(3)}
        elif CUSTOM_MARK in s or re.search(r"ValueError[:(]\s*False", s):
            impl = "custom"
        elif "has a data type mismatch with feature group" in s:
            impl = "conflict"
        else:
            impl = "error:" + type(e).__name__ + ":" + s[-200:]
    return impl, detail, b.calls


def lean_request(c: Case) -> Dict[str, Any]:
    """the question for the model: the table the group's step ends with, the features as the validator sees them.
    The API flag is propagated on the REQUEST's features (mlodaAPI._process_features), i.e. before a group-only declaration exists."""
    from mloda.core.abstract_plugins.components.data_types import DataType

    cols = ([{"name": "b", "arrow": "int64"}] if c["pos"] == "derived" else []) + [{"name": "x", "arrow": str(DataType.to_arrow_type(DataType[c["a"]]))}]
    strict_opt = True if c["mode"] in ("option", "option_context") else None
    feats = [{"name": "x", "declared": effective_declared(c), "strict": strict_opt}]
    if c["mix"]:
        cols.append({"name": "u", "arrow": str(DataType.to_arrow_type(DataType[c["u_type"]]))})
        feats.append({"name": "u", "declared": None, "strict": strict_opt if c["u_opt"] else None})
    req_typed = c["declare"] in ("request", "rule_same", "rule_none")
    return {"op": "C17.validate", "cols": cols, "feats": feats, "apiStrict": c["mode"] == "api" and req_typed}


class _Acc:
    def __init__(self) -> None:
        self.pending: List[Tuple[str, Case, str, Optional[Dict[str, str]], Dict[str, Any]]] = []
        self.hook_hits = 0
        self.hook_cases = 0


def eval_case(ctx: Ctx, suite: str, c: Case, acc: _Acc) -> None:
    impl, detail, calls = run_case(c)
    exp = expected(c)
    d_eff = effective_declared(c)
    overrides = sorted(k for k in ("vout", "vin") if c[k] is not None) + (["rule"] if c["declare"] in ("rule_same", "rule_only", "rule_none", "conflict") else []) + (["setname"] if c["setname"] else []) + (["artifact"] if c["artifact"] else [])  # fmt: skip
    ctx.case(
        suite, c, d_eff is not None,
        ovr_shape=c.get("base") or f"{c['build']}/{c['pos']}", ovr_overrides="+".join(overrides) or "-", ovr_vout=c["vout"], ovr_ext=c["ext"],
        ovr_mode=c["mode"], ovr_declare=c["declare"], ovr_expected=exp, ovr_vout_called=calls["vout"] > 0, ovr_ext_called=calls["ext"] > 0,
    )  # fmt: skip
    if c["vout"] is not None and c["ext"] != "swallow" and exp in ("ok", "custom"):
        acc.hook_cases += 1
        acc.hook_hits += 1 if calls["vout"] > 0 else 0
    if impl not in acceptable(c):
        cls = FINDING_RULE_API if (exp == "mismatch" and in_rule_api_class(c, impl)) else None
        what = (
            f"run_all outcome {impl!r}, property says {exp!r}: declared {d_eff} ({c['declare']}), produced {c['a']}, mode {c['mode']}, "
            f"group built by {c['build']} at {c['pos']} overriding [{'+'.join(overrides) or 'nothing'}] (validate_output_features -> {c['vout']}), extender {c['ext']}"
        )
        ctx.violation(suite, c, what, impl, exp, finding_class=cls)
    elif impl == "mismatch" and detail is not None and (detail["col"], detail["declared"], detail["actual"]) != ("x", d_eff, c["a"]):
        ctx.violation(suite, c, f"mismatch error names {detail}, expected column x declared {d_eff} actual {c['a']}", detail, {"col": "x", "declared": d_eff, "actual": c["a"]})
    if c["declare"] != "conflict":
        acc.pending.append((suite, c, impl, detail, lean_request(c)))


def flush_model(ctx: Ctx, acc: _Acc) -> None:
    outs = ctx.lean.batch([p[4] for p in acc.pending])
    for (suite, c, impl, detail, _rq), o in zip(acc.pending, outs):
        if impl == "custom" and "mismatch" in acceptable(c):
            continue  # the sibling's step failed in the group's own validation before the typed column was looked at: nothing to compare
        type_part = "mismatch" if impl == "mismatch" else ("ok" if impl in ("ok", "custom") else "other")
        if type_part != o.get("r"):
            ctx.disagree(suite, c, impl, o)
        elif impl == "mismatch" and detail is not None and detail != {k: o.get(k) for k in ("col", "declared", "actual")}:
            ctx.disagree(suite, c, detail, o)
    acc.pending = []


# --------------------------------------------------------------------------------------------------------------------


def run(ctx: Ctx) -> None:
    acc = _Acc()
    rng = ctx.rng
    # ---- ovr_matrix: complete matrix per base shape ----------------------------------------------------
    pairs = [(d, a) for d in NAMES for a in NAMES]
    for base in BASE_SHAPES:
        for mode in MODES:
            for d, a in pairs:
                eval_case(ctx, "ovr_matrix", matrix_case(rng, base, d, a, mode), acc)
    # ---- ovr_random: random shapes ---------------------------------------------------------------------------
    for _ in range(ctx.budget(1500, 20000)):
        eval_case(ctx, "ovr_random", gen_case(rng), acc)
    flush_model(ctx, acc)
    if acc.hook_cases and acc.hook_hits != acc.hook_cases:
        ctx.note(f"override: overriding validate_output_features was called in only {acc.hook_hits}/{acc.hook_cases} runs where it must run")
        raise RuntimeError(f"override harness: custom validate_output_features not reached ({acc.hook_hits}/{acc.hook_cases}) - generated groups are not the ones executed")
    ctx.tag("ovr_hook_runs", "reached", acc.hook_hits)


def search(ctx: Ctx, broken: List[str]) -> None:
    run(ctx)


def replay(ctx: Ctx, body: Dict[str, Any]) -> None:
    acc = _Acc()
    eval_case(ctx, body.get("suite", "ovr_random"), body["case"], acc)
    flush_model(ctx, acc)
