"""C02 extension `cfw` - which compute-framework object a step reads and writes.

Model: lean/MlodaVerif/Model/CfwReg.lean (CfwManager + the placement half of ComputeFrameworkExecutor); driver `C02_cfw`.
Suites
  cfw_ops      random call histories on a real CfwManager vs the model: every return value / raised error and the whole state after every call
  cfw_spin     find_leftmost on a cyclic merge relation: the model runs out of fuel, the real call is shown not to return (interrupted by a timer)
  cfw_witness  every closed `…_witness` theorem of Props/C02_cfw.lean replayed on the real CfwManager / executor (stated value = driver = real)
  cfw_prepare  real ComputeFrameworkExecutor.prepare_execute_step / prepare_tfs_and_joinstep on real step objects vs the model
  cfw_mode     _get_execution_function, all 64 combinations of mode sets
  cfw_e2e      generated requests (link-free, multi-framework, joins) run in SYNC with harness-side wrappers that record every placement call
               with the registry before and after; every recorded transition and the whole sequence are replayed through the model; oracle:
               the object handed to a feature-group step holds the columns of all its input features and has the step's framework class, no
               placement call raises, link-free single-framework plans run on one object (Exec's hypothesis), link-free plans keep the
               children of same-class objects disjoint (hypothesis of C02.cfw_lookup_unique_partial) - outside the known input classes
Oracles of the function-level suites: RefMgr (a reference manager written from the docstrings) and per-step-kind clauses in cfw_prepare.
Random streams: one per suite, seeded from ctx.seed (VERIF_SEED) and the suite name (`sub_rng`), so a replay regenerates the same cases.
"""
from __future__ import annotations

import signal
from typing import Any, Dict, List, Optional, Set, Tuple
from uuid import UUID, uuid4

from harness.core import Ctx
from harness import fgfactory as F
from harness import schedlib as S

from mloda.core.core.cfw_manager import CfwManager
from mloda.core.runtime.compute_framework_executor import ComputeFrameworkExecutor
from mloda.core.runtime.worker_manager import WorkerManager
from mloda.core.abstract_plugins.components.parallelization_modes import ParallelizationMode
from mloda.core.core.step.feature_group_step import FeatureGroupStep
from mloda.core.core.step.transform_frame_work_step import TransformFrameworkStep
from mloda.core.core.step.join_step import JoinStep

SUITES = {"cfw_ops", "cfw_spin", "cfw_witness", "cfw_prepare", "cfw_mode", "cfw_e2e"}
DRIVER = "C02_cfw"

ASSUMPTIONS = [
    "cfw: the CfwManager is the plain object of SYNC runs; under THREADING / MULTIPROCESSING the same methods run behind a multiprocessing manager proxy (one call at a time) - the serialisation by the manager process is assumed, not modelled",
    "cfw: uuid4() never returns a uuid that is already registered (the model takes the fresh uuid as an argument and rejects a duplicate exactly like the code)",
    "cfw: end-to-end placement is recorded in SYNC mode only (the placement code is the same in the other modes; what differs there is C06's subject)",
]


# --------------------------------------------------------------------------------------------------
# small helpers


def sub_rng(ctx: Ctx, suite: str) -> Any:
    """Random stream of one suite, seeded from the run's seed (VERIF_SEED) and the suite name only - not from how much of
    ctx.rng the property's main module consumed before - so that `--replay` of a suite regenerates exactly its cases."""
    import random

    return random.Random(f"{ctx.prop}:cfw:{suite}:{ctx.seed}")


class Ids:
    """first-occurrence renaming of uuids / class names to small ints"""

    def __init__(self) -> None:
        self.m: Dict[Any, int] = {}

    def __call__(self, x: Any) -> Optional[int]:
        if x is None:
            return None
        if x not in self.m:
            self.m[x] = len(self.m) + 1
        return self.m[x]


class Spin(Exception):
    pass


def _alarm(signum: Any, frame: Any) -> None:
    raise Spin()


def guarded_call(fn: Any, seconds: float = 0.25) -> Tuple[str, Any]:
    """Run fn() in this (the main) thread under an interval timer: ("ok", value) | ("raise", exception) | ("spin", None).
    The loops this protects are pure Python (find_leftmost), so the signal handler interrupts them."""
    old = signal.signal(signal.SIGALRM, _alarm)
    signal.setitimer(signal.ITIMER_REAL, seconds)
    try:
        try:
            r = fn()
        finally:
            signal.setitimer(signal.ITIMER_REAL, 0)
        return "ok", r
    except Spin:
        return "spin", None
    except BaseException as e:  # noqa
        return "raise", e
    finally:
        signal.setitimer(signal.ITIMER_REAL, 0)
        signal.signal(signal.SIGALRM, old)


def err_name(e: BaseException) -> str:
    """real exception -> the model's error enum (class + a distinctive part of the message)"""
    s = str(e)
    if isinstance(e, StopIteration):
        return "stopIteration"
    if isinstance(e, KeyError):
        return "keyError"
    if isinstance(e, ValueError):
        for pat, name in [
            ("already exists in compute_frameworks", "dupUuid"),
            ("No compute framework registered", "noCfw"),
            ("from_feature_uuid or from_cfw_uuid should not be none", "tfsNoSource"),
            ("from_feature_uuid should not be none", "anyUuidNone"),
            ("This should not occur", "notOccur"),
            ("cfw_uuid should not be none in prepare_tfs", "fromNone"),
            ("from_cfw_uuid should not be none", "fromNone"),
            ("Artifact name", "dupArtifact"),
            ("No api data set", "noApiData"),
            ("Api data with key", "apiKeyMissing"),
        ]:
            if pat in s:
                return name
    return f"other:{type(e).__name__}:{s[:60]}"


def cyclic_from(rel: Dict[Any, Tuple[Any, Any]], u: Any) -> bool:
    """independent prediction: does the parent chain from u run into a cycle that is not a self-loop?"""
    seen = set()
    while u in rel:
        if u in seen:
            return True
        seen.add(u)
        p = rel[u][0]
        if p == u:
            return False
        u = p
    return False


# --------------------------------------------------------------------------------------------------
# suite cfw_ops: histories on a real CfwManager


class _FakeCls:
    def __init__(self, name: str) -> None:
        self._n = name

    def get_class_name(self) -> str:
        return self._n


def mgr_state(m: CfwManager, cls_id: Dict[str, int], uid: Any) -> Dict[str, Any]:
    return {
        "cfws": [[uid(u), cls_id[c], sorted(uid(x) for x in ch)] for u, (c, ch) in m.compute_frameworks.items()],
        "rel": sorted([uid(r), uid(l), cls_id[c]] for r, (l, c) in m.cfw_merge_relation.items()),
        "location": None if m.location is None else (0 if m.location == "" else int(m.location)),
        "error": bool(m.error),
        "msg": m.msg,
        "exc": m.exc_info,
        "colNames": sorted([uid(u), sorted(int(c) for c in cs)] for u, cs in m.uuid_column_names.items()),
        "flyway": sorted([uid(u), sorted(uid(x) for x in ds)] for u, ds in m.uuid_flyway_datasets.items()),
        "artifacts": sorted([int(k), v] for k, v in m.artifact_to_save.items()),
        "apiData": None if m.api_data is None else sorted([int(k), v] for k, v in m.api_data.items()),
    }


def canon_model_state(s: Dict[str, Any]) -> Dict[str, Any]:
    return {
        "cfws": [[u, c, sorted(ch)] for u, c, ch in s["cfws"]],
        "rel": sorted(s["rel"]),
        "location": s["location"],
        "error": s["error"],
        "msg": s["msg"],
        "exc": s["exc"],
        "colNames": sorted([u, sorted(cs)] for u, cs in s["colNames"]),
        "flyway": sorted([u, sorted(ds)] for u, ds in s["flyway"]),
        "artifacts": sorted(s["artifacts"]),
        "apiData": None if s["apiData"] is None else sorted(s["apiData"]),
    }


class _UU:
    def __getitem__(self, i: int) -> UUID:
        return UUID(int=i)


def make_call(m: CfwManager, op: List[Any], uu: Any, cls_names: List[str]) -> Any:
    k = op[0]
    if k == "register":
        return lambda: m.add_cfw_to_compute_frameworks(uu[op[1]], cls_names[op[2]], {uu[x] for x in op[3]})
    if k == "lookup":
        return lambda: m.get_cfw_uuid(cls_names[op[1]], uu[op[2]])
    if k == "lookupInit":
        return lambda: m.get_initialized_compute_framework_uuid(_FakeCls(cls_names[op[1]]), uu[op[2]])  # type: ignore[arg-type]
    if k == "merge":
        return lambda: m.add_to_merge_relation(uu[op[1]], uu[op[2]], cls_names[op[3]])
    if k == "leftmost":
        return lambda: m.find_leftmost(uu[op[1]], cls_names[op[2]])
    if k == "setError":
        return lambda: m.set_error(op[1], op[2])
    if k == "setArtifact":
        return lambda: m.set_artifact_to_save(str(op[1]), op[2])
    if k == "setApiData":
        return lambda: m.set_api_data(None if op[1] is None else {str(k_): v for k_, v in op[1]})  # type: ignore[arg-type]
    if k == "getApiData":
        return lambda: m.get_api_data_by_name(str(op[1]))
    if k == "addColNames":
        return lambda: m.add_column_names_to_cf_uuid(uu[op[1]], {str(x) for x in op[2]})
    if k == "getColNames":
        return lambda: m.get_column_names(uu[op[1]])
    if k == "addFlyway":
        return lambda: m.add_uuid_flyway_datasets(uu[op[1]], {uu[x] for x in op[2]})
    if k == "getFlyway":
        return lambda: m.get_uuid_flyway_datasets(uu[op[1]])
    if k == "setLocation":
        return lambda: m.set_location("" if op[1] == 0 else str(op[1]))
    raise ValueError(k)



class RefMgr:
    """Independent reference of the CfwManager written from its docstrings / the work order's reading of them (plain dicts,
    no fuel: a cyclic chain is reported as "fuel")."""

    def __init__(self) -> None:
        self.cfws: List[Tuple[int, int, Set[int]]] = []
        self.rel: Dict[int, Tuple[int, int]] = {}
        self.err: Tuple[bool, Any, Any] = (False, None, None)
        self.art: Dict[int, int] = {}
        self.api: Optional[Dict[int, Any]] = None
        self.cols: Dict[int, List[int]] = {}
        self.fly: Dict[int, List[int]] = {}
        self.loc: Optional[int] = None

    def leftmost(self, u: int, c: int) -> Any:
        if u not in self.rel:
            return u
        lm, seen = u, set()
        while self.rel[u][0] != u:
            if u in seen:
                return "fuel"
            seen.add(u)
            u = self.rel[u][0]
            if u not in self.rel:
                return "keyError"
            if self.rel[u][1] == c:
                lm = u
        return lm

    def lookup(self, c: int, f: int) -> Any:
        for u, cc, ch in self.cfws:
            if cc == c and f in ch:
                return self.leftmost(u, c)
        return None

    def apply(self, op: List[Any]) -> Any:
        """the canonical return value (None for calls returning nothing, an error name for calls that raise)"""
        k = op[0]
        if k == "register":
            if any(u == op[1] for u, _, _ in self.cfws):
                return "dupUuid"
            self.cfws.append((op[1], op[2], set(op[3])))
        elif k == "lookup":
            return self.lookup(op[1], op[2])
        elif k == "lookupInit":
            r = self.lookup(op[1], op[2])
            return "noCfw" if r is None else r
        elif k == "merge":
            self.rel[op[2]] = (op[1], op[3])
            if op[1] not in self.rel:
                self.rel[op[1]] = (op[1], op[3])
        elif k == "leftmost":
            return self.leftmost(op[1], op[2])
        elif k == "setError":
            self.err = (True, op[1], op[2])
        elif k == "setArtifact":
            if op[1] in self.art:
                return "dupArtifact"
            self.art[op[1]] = op[2]
        elif k == "setApiData":
            self.api = None if op[1] is None else {a: b for a, b in op[1]}
        elif k == "getApiData":
            if self.api is None:
                return "noApiData"
            v = self.api.get(op[1])
            return "apiKeyMissing" if v is None else v
        elif k == "addColNames":
            self.cols[op[1]] = sorted(op[2])
        elif k == "getColNames":
            return self.cols[op[1]] if op[1] in self.cols else "keyError"
        elif k == "addFlyway":
            self.fly[op[1]] = sorted(op[2])
        elif k == "getFlyway":
            return self.fly.get(op[1])
        elif k == "setLocation":
            if not self.loc:
                self.loc = op[1]
        return None


def ops_suite(ctx: Ctx, n: int, spin_budget: int, fixed: Optional[List[Any]] = None) -> None:
    rng = sub_rng(ctx, "cfw_ops")
    NU, NC = 6, 2
    uu = _UU()  # model id i <-> UUID(int=i)
    uid = lambda u: None if u is None else u.int  # noqa: E731
    cls_names = [f"Fw{i}" for i in range(NC)]
    cls_id = {c: i for i, c in enumerate(cls_names)}
    reqs: List[Dict[str, Any]] = []
    impls: List[List[Dict[str, Any]]] = []
    cases: List[Any] = []
    spins_done = 0
    for _ in range(n):
        m = CfwManager({ParallelizationMode.SYNC})
        ref = RefMgr()
        ops: List[Any] = []
        outs: List[Dict[str, Any]] = []
        style = rng.choice(["registry", "registry", "merge", "merge", "cells"])
        allow_cycle = rng.random() < 0.15 and spins_done < spin_budget
        forced: List[Any] = []
        if fixed is not None:
            forced, allow_cycle, style = [list(o) for o in fixed], True, "replay"
        elif allow_cycle:
            # a chain of 2-3 objects closed into a cycle, then calls that walk it
            cyc = rng.sample(range(1, NU + 1), rng.randint(2, 3))
            forced = [["merge", cyc[i], cyc[i + 1], 0] for i in range(len(cyc) - 1)] + [["merge", cyc[-1], cyc[0], 0]]
            forced += [["register", cyc[0], 0, [cyc[1]]], rng.choice([["leftmost", rng.choice(cyc), 0], ["lookup", 0, cyc[1]]]), ["leftmost", rng.choice(cyc), rng.randrange(NC)]]
            style = "cycle"
        for _ in range(len(forced) if fixed is not None else rng.randint(3, 14) + len(forced)):
            kind: str
            op: List[Any]
            if forced and (fixed is not None or rng.random() < 0.6):
                op = forced.pop(0)
            else:
                if style == "cells":
                    kind = rng.choice(["setError", "setError", "setArtifact", "setArtifact", "setApiData", "getApiData", "getApiData", "addColNames", "getColNames", "addFlyway", "getFlyway", "setLocation"])
                elif style == "registry":
                    kind = rng.choice(["register", "register", "register", "lookup", "lookup", "lookupInit", "merge", "leftmost"])
                else:
                    kind = rng.choice(["register", "merge", "merge", "merge", "lookup", "lookup", "leftmost", "leftmost"])
                u1, u2 = rng.randint(1, NU), rng.randint(1, NU)
                c = rng.randrange(NC)
                if kind == "register":
                    op = ["register", u1, c, rng.sample(range(1, NU + 1), rng.randint(0, 3))]
                elif kind in ("lookup", "lookupInit"):
                    op = [kind, c, u1]
                elif kind == "merge":
                    if not allow_cycle:
                        # keep the relation a forest: right must not be an ancestor of left (independent walk)
                        a, seen = uu[u1], set()
                        anc = {a}
                        while a in m.cfw_merge_relation and m.cfw_merge_relation[a][0] != a and a not in seen:
                            seen.add(a)
                            a = m.cfw_merge_relation[a][0]
                            anc.add(a)
                        if uu[u2] in anc and u1 != u2:
                            continue
                    op = ["merge", u1, u2, c]
                elif kind == "leftmost":
                    op = ["leftmost", u1, c]
                elif kind == "setError":
                    op = ["setError", rng.choice([None, 0, 1, 2]), rng.choice([None, 0, 3])]
                elif kind == "setArtifact":
                    op = ["setArtifact", rng.randint(0, 2), rng.randint(0, 5)]
                elif kind == "setApiData":
                    d = None if rng.random() < 0.15 else {k: rng.choice([None, 0, 0, 1, 7]) for k in rng.sample(range(4), rng.randint(0, 3))}
                    op = ["setApiData", None if d is None else [[k, v] for k, v in d.items()]]
                elif kind == "getApiData":
                    op = ["getApiData", rng.randrange(4)]
                elif kind == "addColNames":
                    op = ["addColNames", u1, rng.sample(range(5), rng.randint(0, 3))]
                elif kind == "getColNames":
                    op = ["getColNames", u1]
                elif kind == "addFlyway":
                    op = ["addFlyway", u1, rng.sample(range(1, NU + 1), rng.randint(0, 3))]
                elif kind == "getFlyway":
                    op = ["getFlyway", u1]
                else:
                    op = ["setLocation", rng.choice([0, 0, 4, 5])]
            kind = op[0]
            call = make_call(m, op, uu, cls_names)
            # does the call walk a merge chain that is cyclic?  (prediction independent of model and code)
            start: Any = None
            if kind == "leftmost":
                start = uu[op[1]]
            elif kind in ("lookup", "lookupInit"):
                for cu, (cn, chs) in m.compute_frameworks.items():
                    if cn == cls_names[op[1]] and uu[op[2]] in chs:
                        start = cu
                        break
            predicted_spin = start is not None and cyclic_from(m.cfw_merge_relation, start)
            if predicted_spin:
                if spins_done >= spin_budget and fixed is None:
                    continue
                spins_done += 1
            status, val = guarded_call(call, 0.2 if predicted_spin else 2.0)
            if status == "spin":
                ret = {"r": "err", "v": "fuel"}
                if not predicted_spin:
                    ctx.violation("cfw_ops", {"ops": ops + [op]}, "a CfwManager call did not return although the merge chain it walks has no cycle", "no return", "return")
            elif status == "raise":
                ret = {"r": "err", "v": err_name(val)}
            else:
                if predicted_spin:
                    ctx.violation("cfw_ops", {"ops": ops + [op]}, "find_leftmost returned on a cyclic merge chain (expected: never returns)", str(val), "no return")
                if kind in ("lookup", "lookupInit", "leftmost"):
                    ret = {"r": "uuid", "v": uid(val)}
                elif kind == "getApiData":
                    ret = {"r": "nat", "v": val}
                elif kind == "getColNames":
                    ret = {"r": "nats", "v": sorted(int(x) for x in val)}
                elif kind == "getFlyway":
                    ret = {"r": "nats", "v": None if val is None else sorted(uid(x) for x in val)}
                else:
                    ret = {"r": "unit"}
            ops.append(op)
            outs.append({"ret": ret, "state": mgr_state(m, cls_id, uid)})
            # oracle: the reference manager (written from the docstrings) on the same call
            want = ref.apply(op)
            got = ret.get("v") if ret["r"] != "unit" else None
            if got != want:
                ctx.violation("cfw_ops", {"ops": list(ops)}, f"CfwManager.{kind}: return value / raised error differs from the documented behaviour", got, want)
            st_ = outs[-1]["state"]
            if (st_["error"], st_["msg"], st_["exc"]) != ref.err:
                ctx.violation("cfw_ops", {"ops": list(ops)}, "error cell is not (set once and for all, last set_error's message and traceback)", [st_["error"], st_["msg"], st_["exc"]], list(ref.err))
            if st_["artifacts"] != sorted([k_, v_] for k_, v_ in ref.art.items()):
                ctx.violation("cfw_ops", {"ops": list(ops)}, "artifact_to_save differs from 'first writer per name, duplicates rejected'", st_["artifacts"], sorted(ref.art.items()))
            if [x_[0] for x_ in st_["cfws"]] != [u_ for u_, _, _ in ref.cfws]:
                ctx.violation("cfw_ops", {"ops": list(ops)}, "compute_frameworks is not 'every accepted registration once, in registration order'", [x_[0] for x_ in st_["cfws"]], [u_ for u_, _, _ in ref.cfws])
            # oracle clauses from the docstrings / the property text, on the real behaviour
            if kind in ("lookup", "lookupInit") and status == "ok" and val is not None:
                # the object returned is registered or a merge ancestor; the start object has the class asked for and lists the feature
                if not any(cn == cls_names[op[1]] and uu[op[2]] in chs for cu, (cn, chs) in m.compute_frameworks.items()):
                    ctx.violation("cfw_ops", {"ops": ops}, "get_cfw_uuid returned an object although no registered object of that class lists the feature", uid(val), None)
            if kind == "register" and status == "ok" and sum(1 for cu in m.compute_frameworks if cu == uu[op[1]]) != 1:
                ctx.violation("cfw_ops", {"ops": ops}, "registering left the uuid zero or several times in compute_frameworks", None, None)
        if not ops:
            continue
        reqs.append({"op": "C02_cfw.ops", "ops": ops})
        impls.append(outs)
        case = {"ops": ops}
        cases.append(case)
        nontrivial = any(o["ret"].get("r") == "err" for o in outs) or any(o[0] == "merge" for o in ops)
        ctx.case("cfw_ops", case, nontrivial, cfw_ops_style=style, cfw_ops_spin=any(o["ret"].get("v") == "fuel" for o in outs))
        for o in outs:
            ctx.tag("cfw_ops_ret", o["ret"]["v"] if o["ret"]["r"] == "err" else o["ret"]["r"])
    models = ctx.driver(DRIVER).batch(reqs)
    for case, impl, mo in zip(cases, impls, models):
        for i, (a, b) in enumerate(zip(impl, mo)):
            mret = dict(b["ret"])
            if mret.get("r") == "nats" and mret.get("v") is not None:
                mret["v"] = sorted(mret["v"])
            if a["ret"] != mret or a["state"] != canon_model_state(b["state"]):
                ctx.disagree("cfw_ops", {"ops": case["ops"][: i + 1]}, a, {"ret": mret, "state": canon_model_state(b["state"])})
                break
    ctx.tag("cfw_spins_confirmed", "n", spins_done)


def spin_suite(ctx: Ctx) -> None:
    """The Lean witness C02.merge_cycle_spins_witness on the real code: add(A,B); add(B,A) - find_leftmost never returns."""
    A, B = UUID(int=1), UUID(int=2)
    m = CfwManager({ParallelizationMode.SYNC})
    m.add_to_merge_relation(A, B, "Fw0")
    m.add_to_merge_relation(B, A, "Fw0")
    status, val = guarded_call(lambda: m.find_leftmost(A, "Fw0"), 0.5)
    mo = ctx.driver(DRIVER).batch([{"op": "C02_cfw.ops", "ops": [["merge", 1, 2, 0], ["merge", 2, 1, 0], ["leftmost", 1, 0]]}])[0]
    case = {"history": [["merge", "A", "B"], ["merge", "B", "A"], ["leftmost", "A"]]}
    ctx.case("cfw_spin", case, True)
    impl = "no return within 0.5 s" if status == "spin" else f"{status}:{val}"
    if (status == "spin") != (mo[-1]["ret"] == {"r": "err", "v": "fuel"}):
        ctx.disagree("cfw_spin", case, impl, mo[-1]["ret"])
    # the discipline of the termination theorem on the same history with the second call left out: returns
    m2 = CfwManager({ParallelizationMode.SYNC})
    m2.add_to_merge_relation(A, B, "Fw0")
    st2, v2 = guarded_call(lambda: m2.find_leftmost(B, "Fw0"), 0.5)
    ctx.case("cfw_spin", {"history": [["merge", "A", "B"], ["leftmost", "B"]]}, True)
    if st2 != "ok" or v2 != A:
        ctx.violation("cfw_spin", case, "find_leftmost on the forest {B -> A} did not return A", f"{st2}:{v2}", "A")



def real_history(ops: List[Any], ncls: int = 2) -> List[Any]:
    """a fixed call history on a fresh real CfwManager; canonical return values"""
    m = CfwManager({ParallelizationMode.SYNC})
    cls_names = [f"Fw{i}" for i in range(ncls)]
    outs: List[Any] = []
    for op in ops:
        status, val = guarded_call(make_call(m, op, _UU(), cls_names), 0.5)
        if status == "spin":
            outs.append("fuel")
        elif status == "raise":
            outs.append(err_name(val))
        elif isinstance(val, UUID):
            outs.append(val.int)
        else:
            outs.append(val)
    return outs


def witness_suite(ctx: Ctx) -> None:
    """The closed witnesses of Props/C02_cfw.lean replayed on the real CfwManager / executor: the value the Lean theorem states,
    the model's value through the driver, and the real value must coincide."""
    W: List[Tuple[str, List[Any], List[int], List[Any]]] = [
        # (theorem, history, positions looked at, values stated by the theorem)
        ("cfw_lookup_order_witness/1", [["register", 1, 0, [5, 6]], ["register", 2, 0, [5]], ["lookup", 0, 5]], [2], [1]),
        ("cfw_lookup_order_witness/2", [["register", 2, 0, [5]], ["register", 1, 0, [5, 6]], ["lookup", 0, 5]], [2], [2]),
        ("cfw_lookup_class_mismatch_witness", [["register", 10, 1, [5]], ["register", 20, 0, [6]], ["register", 30, 1, [7]], ["register", 40, 0, [8]],
                                               ["merge", 20, 10, 0], ["merge", 30, 20, 1], ["merge", 40, 30, 0], ["lookup", 1, 5]], [7], [20]),
        ("cfw_lookup_miss_not_stable_witness", [["lookup", 0, 5], ["register", 1, 0, [5]], ["lookup", 0, 5]], [0, 2], [None, 1]),
        ("merge_changes_lookup_witness", [["register", 1, 0, [5]], ["register", 2, 0, [6]], ["lookup", 0, 5], ["merge", 2, 1, 0], ["lookup", 0, 5]], [2, 4], [1, 2]),
        ("merge_cycle_spins_witness", [["merge", 1, 2, 0], ["merge", 2, 1, 0], ["leftmost", 1, 0]], [2], ["fuel"]),
        ("api_data_none_value_witness", [["getApiData", 1], ["setApiData", [[1, None], [2, 0]]], ["getApiData", 1], ["getApiData", 3], ["getApiData", 2]], [0, 2, 3, 4],
         ["noApiData", "apiKeyMissing", "apiKeyMissing", 0]),
        ("cfw_register_rejects_duplicate", [["register", 1, 0, [5]], ["register", 1, 1, []], ["lookup", 1, 5]], [1, 2], ["dupUuid", None]),
        ("artifact_duplicate_rejected", [["setArtifact", 1, 4], ["setArtifact", 1, 5], ["setArtifact", 2, 5]], [1, 2], ["dupArtifact", None]),
        ("join_redirects_right_to_left", [["register", 1, 0, [5]], ["register", 2, 0, [6]], ["merge", 1, 2, 0], ["lookup", 0, 6]], [3], [1]),
    ]
    reqs = [{"op": "C02_cfw.ops", "ops": h} for _, h, _, _ in W]
    outs = ctx.driver(DRIVER).batch(reqs)
    for (name, hist, pos, want), mo in zip(W, outs):
        real = real_history(hist)
        model = []
        for o in mo:
            r = o["ret"]
            model.append(None if r["r"] == "unit" else r["v"])
        case = {"theorem": "C02." + name, "history": hist}
        ctx.case("cfw_witness", case, True)
        got_real = [real[i] for i in pos]
        got_model = [model[i] for i in pos]
        if got_model != want:
            ctx.disagree("cfw_witness", case, {"stated": want}, {"driver": got_model})
        if got_real != want:
            ctx.disagree("cfw_witness", case, got_real, want)
    # exec_shared_object_witness / hypothesis on the real executor
    from mloda.core.abstract_plugins.components.feature_set import FeatureSet
    from mloda_plugins.compute_framework.base_implementations.pyarrow.table import PyArrowTable

    def fg(own: List[int], extra: List[int]) -> Any:
        fs = FeatureSet()
        for i in own:
            fs.add(_Feat(UUID(int=i)))  # type: ignore[arg-type]
        return FeatureGroupStep(None, fs, set(), PyArrowTable, {UUID(int=i) for i in extra})  # type: ignore[arg-type]

    for name, steps, same in [("exec_shared_object_witness", [fg([1], [2]), fg([3], [])], False), ("exec_shared_object_hypothesis", [fg([1], [2, 3]), fg([2], []), fg([3], [])], True)]:
        ex = ComputeFrameworkExecutor(CfwManager({ParallelizationMode.SYNC}), WorkerManager())
        got = [ex.prepare_execute_step(st, ParallelizationMode.SYNC) for st in steps]
        ctx.case("cfw_witness", {"theorem": "C02." + name}, True)
        if (len(set(got)) == 1) != same or len(ex.cfw_register.compute_frameworks) != len(set(got)):
            ctx.disagree("cfw_witness", {"theorem": "C02." + name}, [str(g) for g in got], "all the same object" if same else "different objects")


# --------------------------------------------------------------------------------------------------
# executor: snapshots and step descriptions shared by cfw_prepare and cfw_e2e


def exe_snapshot(ex: ComputeFrameworkExecutor, uid: Any, cid: Any) -> Dict[str, Any]:
    reg = ex.cfw_register
    return {
        "cfws": [[uid(u), cid(c), sorted(uid(x) for x in ch)] for u, (c, ch) in reg.compute_frameworks.items()],
        "rel": [[uid(r), uid(l), cid(c)] for r, (l, c) in reg.cfw_merge_relation.items()],
        "coll": [[uid(u), cid(o.get_class_name()), sorted(uid(x) for x in o.children_if_root)] for u, o in ex.cfw_collection.items()],
    }


def canon_exe(s: Dict[str, Any]) -> Dict[str, Any]:
    return {"cfws": [[u, c, sorted(ch)] for u, c, ch in s["cfws"]], "rel": sorted(s["rel"]), "coll": sorted([u, c, sorted(ch)] for u, c, ch in s["coll"])}


def step_desc(step: Any, uid: Any, cid: Any) -> Dict[str, Any]:
    """exactly the fields the placement code reads; sets whose iteration order it observes are listed in that order"""
    if isinstance(step, FeatureGroupStep):
        return {"kind": "fg", "cls": cid(step.compute_framework.get_class_name()), "tfs": [uid(u) for u in step.tfs_ids], "any": uid(step.features.any_uuid),
                "children": sorted(uid(u) for u in step.children_if_root)}  # fmt: skip
    if isinstance(step, TransformFrameworkStep):
        return {"kind": "tfs", "from": cid(step.from_framework.get_class_name()), "to": cid(step.to_framework.get_class_name()), "req": [uid(u) for u in step.required_uuids],
                "link": uid(step.link_id) if step.link_id else None, "uuid": uid(step.uuid), "right": uid(step.right_framework_uuid) if step.right_framework_uuid else None}  # fmt: skip
    if isinstance(step, JoinStep):
        return {"kind": "join", "left": cid(step.left_framework.get_class_name()), "lefts": [uid(u) for u in step.left_framework_uuids], "link": uid(step.link.uuid),
                "rights": [uid(u) for u in step.right_framework_uuids]}  # fmt: skip
    return {"kind": "?"}


# --------------------------------------------------------------------------------------------------
# suite cfw_prepare: real executor, real step objects, random sequences


class _Feat:
    """what FeatureSet / FeatureGroupStep read of a feature here: uuid (hash / eq by identity)"""

    def __init__(self, u: UUID) -> None:
        self.uuid = u
        self.name = f"f{u.int}"
        self.options = None


class _Link:
    def __init__(self, u: UUID) -> None:
        self.uuid = u


def prepare_suite(ctx: Ctx, n: int) -> None:
    rng = sub_rng(ctx, "cfw_prepare")
    _prepare_suite(ctx, n, rng)


def _prepare_suite(ctx: Ctx, n: int, rng: Any) -> None:
    from mloda.core.abstract_plugins.components.feature_set import FeatureSet
    from mloda_plugins.compute_framework.base_implementations.pyarrow.table import PyArrowTable
    from mloda_plugins.compute_framework.base_implementations.pandas.dataframe import PandasDataFrame
    from mloda_plugins.compute_framework.base_implementations.python_dict.python_dict_framework import PythonDictFramework

    FWS = [PyArrowTable, PandasDataFrame, PythonDictFramework]
    reqs: List[Dict[str, Any]] = []
    impls: List[List[Dict[str, Any]]] = []
    cases: List[Any] = []
    for _ in range(n):
        uid, cid = Ids(), Ids()
        for fw in FWS:
            cid(fw.get_class_name())
        feats = [UUID(int=1000 + i) for i in range(8)]  # feature / link / tfs uuids the steps talk about
        for f in feats:
            uid(f)
        ex = ComputeFrameworkExecutor(CfwManager({ParallelizationMode.SYNC}), WorkerManager())
        init = exe_snapshot(ex, uid, cid)
        calls: List[Dict[str, Any]] = []
        outs: List[Dict[str, Any]] = []
        made_tfs: List[Any] = []
        nfw = rng.choice([1, 2, 2, 3])

        def pick(k_lo: int, k_hi: int) -> Set[UUID]:
            """feature uuids, mostly ones some registered object lists (so that look-ups hit)"""
            known = sorted({x for _, (_, chs) in ex.cfw_register.compute_frameworks.items() for x in chs}, key=lambda u: u.int)
            pool = known if known and rng.random() < 0.75 else feats
            return set(rng.sample(pool, min(len(pool), rng.randint(k_lo, k_hi))))

        def pick_fw(f: Optional[Set[UUID]] = None) -> Any:
            """a framework class, mostly one under which some object lists one of the uuids"""
            if f and rng.random() < 0.75:
                cands = [c for _, (c, chs) in ex.cfw_register.compute_frameworks.items() if f & set(chs)]
                if cands:
                    name = rng.choice(cands)
                    return next(w for w in FWS if w.get_class_name() == name)
            return rng.choice(FWS[:nfw])

        for _ in range(rng.randint(2, 10)):
            r = rng.random()
            if r < 0.12:
                # get_cfw(framework class, feature uuid): what _process_step_result asks for after a feature-group step
                f_ = sorted(pick(1, 1), key=lambda u: u.int)[0]
                fw_ = pick_fw({f_})
                st_g, v_g = guarded_call(lambda: ex.get_cfw(fw_, f_), 2.0)
                calls.append({"k": "getcfw", "c": cid(fw_.get_class_name()), "f": uid(f_), "step": {"kind": "getcfw"}})
                outs.append({"ret": {"ok": uid(v_g.uuid)} if st_g == "ok" else {"err": "fuel" if st_g == "spin" else err_name(v_g)}, "exe": canon_exe(exe_snapshot(ex, uid, cid))})
                if st_g == "ok" and (type(v_g) is not fw_ and not ex.cfw_register.cfw_merge_relation):
                    ctx.violation("cfw_prepare", {"calls": calls}, "get_cfw returned an object of another framework class although nothing was merged", type(v_g).__name__, fw_.__name__)
                continue
            if r < 0.45:
                fs = FeatureSet()
                own = rng.sample(feats, rng.randint(0 if rng.random() < 0.08 else 1, 2))
                for f in own:
                    fs.add(_Feat(f))  # type: ignore[arg-type]
                extra = set(rng.sample(feats, rng.randint(0, 3)))
                step: Any = FeatureGroupStep(None, fs, set(), rng.choice(FWS[:nfw]), extra)  # type: ignore[arg-type]
                if rng.random() < 0.35:
                    step.tfs_ids = set(rng.sample(feats + [t.uuid for t in made_tfs], rng.randint(1, 2)))
                if rng.random() < 0.3 and own:
                    fs.any_uuid = rng.choice(feats)  # what add_tfs does for joins: any_uuid reset to a left-side uuid
            elif r < 0.8:
                if made_tfs and rng.random() < 0.15:
                    step = rng.choice(made_tfs)  # the same transform step prepared twice
                else:
                    rq_ = pick(0 if rng.random() < 0.1 else 1, 3)
                    a, b = pick_fw(rq_), rng.choice(FWS[:nfw])
                    step = TransformFrameworkStep(a, b, rq_, None, None,  # type: ignore[arg-type]
                                                  link_id=rng.choice(feats) if rng.random() < 0.4 else None,
                                                  right_framework_uuids=pick(0, 2) if rng.random() < 0.5 else set())  # fmt: skip
                    made_tfs.append(step)
            else:
                lf_ = pick(0 if rng.random() < 0.1 else 1, 2)
                step = JoinStep(_Link(rng.choice(sorted(pick(1, 1), key=lambda u: u.int))), pick_fw(lf_), rng.choice(FWS[:nfw]), set(), lf_, pick(0, 2))  # type: ignore[arg-type]
            before = set(ex.cfw_register.compute_frameworks)
            desc = step_desc(step, uid, cid)  # before the call: uuids the step mentions get their ids first
            reg0 = {u: (c_, set(ch_)) for u, (c_, ch_) in ex.cfw_register.compute_frameworks.items()}

            def _look(cn: str, f: Any) -> Any:
                st_, v_ = guarded_call(lambda: ex.cfw_register.get_cfw_uuid(cn, f), 1.0)
                return v_ if st_ == "ok" else None

            expect: Any = None  # what the property text says the step must be handed (None: nothing said / error expected)
            if isinstance(step, FeatureGroupStep):
                cn = step.compute_framework.get_class_name()
                hits = [_look(cn, t) for t in list(step.tfs_ids)] + ([_look(cn, step.features.any_uuid)] if step.features.any_uuid is not None else [])
                expect = ("existing", next((h for h in hits if h is not None), None)) if any(h is not None for h in hits) else ("new", set(step.children_if_root))
                if step.features.any_uuid is None and not any(h is not None for h in hits):
                    expect = None
            elif isinstance(step, JoinStep):
                lu = list(step.left_framework_uuids)
                h0 = _look(step.left_framework.get_class_name(), lu[0]) if lu else None
                expect = ("existing", h0) if h0 is not None else None
            status, val = guarded_call(lambda: ex.prepare_execute_step(step, ParallelizationMode.SYNC), 2.0)
            new = [u for u in ex.cfw_register.compute_frameworks if u not in before]
            fresh = uid(new[0]) if new else uid(uuid4())
            calls.append({"k": "prepare", "step": desc, "fresh": fresh})
            ret = {"ok": uid(val)} if status == "ok" else {"err": "fuel" if status == "spin" else err_name(val)}
            outs.append({"ret": ret, "exe": canon_exe(exe_snapshot(ex, uid, cid))})
            # oracle: which object the step is handed
            if status == "ok":
                reg1 = ex.cfw_register.compute_frameworks
                if isinstance(step, TransformFrameworkStep):
                    if val != step.uuid or val in reg0 or val not in reg1:
                        ctx.violation("cfw_prepare", {"calls": calls}, "a transform step was not handed a NEW object carrying the step's uuid", str(val), str(step.uuid))
                    elif step.link_id and step.link_id not in reg1[val][1]:
                        ctx.violation("cfw_prepare", {"calls": calls}, "the object created for a join's transform step does not list the link uuid among its children", None, None)
                    elif not any(set(reg1[val][1]) == ch_ | ({step.link_id} if step.link_id else set()) for c_, ch_ in reg0.values()):
                        ctx.violation("cfw_prepare", {"calls": calls}, "the object created for a transform step does not carry the children_if_root of a registered (source) object plus the link uuid", None, None)
                elif expect is not None and expect[0] == "existing":
                    if val != expect[1] or len(reg1) != len(reg0):
                        ctx.violation("cfw_prepare", {"calls": calls}, "the step was not handed the existing object that get_cfw_uuid finds for it (or something was registered)", str(val), str(expect[1]))
                elif expect is not None and expect[0] == "new":
                    if val in reg0 or val not in reg1 or set(reg1[val][1]) != expect[1] or reg1[val][0] != step.compute_framework.get_class_name():
                        ctx.violation("cfw_prepare", {"calls": calls}, "a feature-group step that no registered object lists was not handed a new object registered with its children_if_root", str(val), "new object")
            elif expect is not None and expect[0] == "existing" and status == "raise":
                ctx.violation("cfw_prepare", {"calls": calls}, f"prepare_execute_step raised ({err_name(val)}) although get_cfw_uuid finds an object for the step", err_name(val), str(expect[1]))
            if status == "ok":
                want_cls = step.compute_framework if isinstance(step, FeatureGroupStep) else step.to_framework if isinstance(step, TransformFrameworkStep) else step.left_framework
                obj = ex.cfw_collection.get(val)
                if obj is None or type(obj) is not want_cls:
                    ctx.violation("cfw_prepare", {"calls": calls}, "prepare_execute_step returned the uuid of no object / of an object of another framework class", str(type(obj).__name__), want_cls.__name__,
                                  finding_class=None)  # fmt: skip
            if status == "ok" and rng.random() < 0.8:
                st2, v2 = guarded_call(lambda: ex.prepare_tfs_and_joinstep(step), 2.0)
                calls.append({"k": "from", "step": desc})
                r2 = {"ok": uid(v2.uuid) if v2 is not None else None} if st2 == "ok" else {"err": "fuel" if st2 == "spin" else err_name(v2)}
                outs.append({"ret": r2, "exe": canon_exe(exe_snapshot(ex, uid, cid))})
                if st2 == "ok" and isinstance(step, JoinStep) and v2 is not None and rng.random() < 0.8:
                    # what JoinStep.execute records after merging
                    cfw = ex.cfw_collection[val]
                    ex.cfw_register.add_to_merge_relation(cfw.uuid, v2.uuid, cls_name=cfw.get_class_name())
                    calls.append({"k": "exec", "step": desc, "cfw": uid(cfw.uuid), "from": uid(v2.uuid)})
                    outs.append({"ret": {"ok": None}, "exe": canon_exe(exe_snapshot(ex, uid, cid))})
        reqs.append({"op": "C02_cfw.seq", "exe": init, "calls": calls})
        impls.append(outs)
        case = {"calls": calls}
        cases.append(case)
        kinds = {c["step"]["kind"] for c in calls} - {"getcfw"}
        ctx.case("cfw_prepare", case, len(kinds) >= 2 or any("err" in o["ret"] for o in outs), cfw_prepare_kinds="+".join(sorted(kinds)))
        for c, o in zip(calls, outs):
            ctx.tag("cfw_prepare_ret", f"{c['k']}:{c['step']['kind']}:{o['ret'].get('err', 'ok')}")
    models = ctx.driver(DRIVER).batch(reqs)
    for case, impl, mo in zip(cases, impls, models):
        for i, (a, b) in enumerate(zip(impl, mo)):
            mb = {"ret": b["ret"], "exe": canon_exe(b["exe"])}
            if a != mb:
                ctx.disagree("cfw_prepare", {"calls": case["calls"][: i + 1]}, a, mb)
                break


def mode_suite(ctx: Ctx) -> None:
    M = {"sync": ParallelizationMode.SYNC, "thread": ParallelizationMode.THREADING, "mp": ParallelizationMode.MULTIPROCESSING}
    names = list(M)
    ex = ComputeFrameworkExecutor(CfwManager({ParallelizationMode.SYNC}), WorkerManager())
    reqs, impls = [], []
    for a in range(8):
        for b in range(8):
            ra = [names[i] for i in range(3) if a >> i & 1]
            rb = [names[i] for i in range(3) if b >> i & 1]
            fn = ex._get_execution_function({M[x] for x in ra}, {M[x] for x in rb})
            impl = {"multi_execute_step": "mp", "thread_execute_step": "thread", "sync_execute_step": "sync"}[fn.__name__]
            both = set(ra) & set(rb)
            want = "mp" if "mp" in both else "thread" if "thread" in both else "sync"
            ctx.case("cfw_mode", {"reg": ra, "step": rb}, len(both) >= 2)
            if impl != want:
                ctx.violation("cfw_mode", {"reg": ra, "step": rb}, "execution function is not the most parallel mode common to the run and the step", impl, want)
            reqs.append({"op": "C02_cfw.mode", "reg": ra, "step": rb})
            impls.append(impl)
    for rq, im, mo in zip(reqs, impls, ctx.driver(DRIVER).batch(reqs)):
        if im != mo:
            ctx.disagree("cfw_mode", rq, im, mo)


# --------------------------------------------------------------------------------------------------
# suite cfw_e2e: recorded placement of whole runs

REC: Dict[str, Any] = {"on": False, "log": [], "uid": None, "cid": None}
_installed = False


def install_recorders() -> None:
    """Harness-side wrappers (nothing is changed in /repo): record every placement call of a SYNC run."""
    global _installed
    if _installed:
        return
    _installed = True
    orig_prepare = ComputeFrameworkExecutor.prepare_execute_step
    orig_from = ComputeFrameworkExecutor.prepare_tfs_and_joinstep
    orig_merge = CfwManager.add_to_merge_relation

    def prepare(self: Any, step: Any, mode: Any) -> Any:
        if not REC["on"] or not isinstance(self.cfw_register, CfwManager):
            return orig_prepare(self, step, mode)
        uid, cid = REC["uid"], REC["cid"]
        before_keys = set(self.cfw_register.compute_frameworks)
        before = exe_snapshot(self, uid, cid)
        desc = step_desc(step, uid, cid)
        ent: Dict[str, Any] = {"k": "prepare", "step": desc, "before": before, "step_uuid": str(step.uuid)}
        REC["log"].append(ent)
        try:
            r = orig_prepare(self, step, mode)
        except BaseException as e:
            ent["ret"] = {"err": err_name(e)}
            ent["fresh"] = 0
            ent["after"] = exe_snapshot(self, uid, cid)
            raise
        new = [u for u in self.cfw_register.compute_frameworks if u not in before_keys]
        ent["fresh"] = uid(new[0]) if new else 0
        ent["ret"] = {"ok": uid(r)}
        ent["after"] = exe_snapshot(self, uid, cid)
        obj = self.cfw_collection.get(r)
        ent["obj_cls"] = type(obj).__name__ if obj is not None else None
        try:
            ent["cols"] = sorted(F.to_columns(obj.data)) if obj is not None and obj.data is not None else []
        except Exception as e:  # data in a shape to_columns does not know
            ent["cols"] = None
            ent["cols_err"] = repr(e)[:100]
        return r

    def frm(self: Any, step: Any) -> Any:
        if not REC["on"] or not isinstance(self.cfw_register, CfwManager):
            return orig_from(self, step)
        uid, cid = REC["uid"], REC["cid"]
        ent: Dict[str, Any] = {"k": "from", "step": step_desc(step, uid, cid), "before": exe_snapshot(self, uid, cid)}
        REC["log"].append(ent)
        try:
            r = orig_from(self, step)
        except BaseException as e:
            ent["ret"] = {"err": err_name(e)}
            ent["after"] = ent["before"]
            raise
        ent["ret"] = {"ok": uid(r.uuid) if r is not None else None}
        ent["after"] = exe_snapshot(self, uid, cid)
        return r

    def merge(self: Any, left_uuid: Any, right_uuid: Any, cls_name: str) -> None:
        if not REC["on"]:
            return orig_merge(self, left_uuid, right_uuid, cls_name)
        uid, cid = REC["uid"], REC["cid"]
        ent: Dict[str, Any] = {"k": "merge", "l": uid(left_uuid), "r": uid(right_uuid), "c": cid(cls_name),
                               "before_rel": [[uid(r), uid(l), cid(c)] for r, (l, c) in self.cfw_merge_relation.items()]}  # fmt: skip
        REC["log"].append(ent)
        orig_merge(self, left_uuid, right_uuid, cls_name)
        ent["after_rel"] = [[uid(r), uid(l), cid(c)] for r, (l, c) in self.cfw_merge_relation.items()]

    ComputeFrameworkExecutor.prepare_execute_step = prepare  # type: ignore[method-assign]
    ComputeFrameworkExecutor.prepare_tfs_and_joinstep = frm  # type: ignore[method-assign]
    CfwManager.add_to_merge_relation = merge  # type: ignore[method-assign]


def record_run(sess: Any) -> Tuple[S.RunResult, List[Dict[str, Any]]]:
    install_recorders()
    REC.update(on=True, log=[], uid=Ids(), cid=Ids())
    try:
        rr = S.run_session(sess, "sync", timeout=20.0, attempts=1)
    finally:
        REC["on"] = False
    return rr, REC["log"]


def gen_e2e(rng: Any) -> Tuple[str, Dict[str, Any]]:
    r = rng.random()
    if r < 0.2:
        return "single-fw", S.gen_spec(rng, max_feats=rng.choice([3, 6, 9]), frameworks=(rng.choice(["pa", "pd", "py"]),), allow_options=True)
    if r < 0.4:
        return "multi-fw-chain", S.gen_chain_spec(rng)
    if r < 0.6:
        fws = rng.choice([("pa", "pd"), ("pa", "py"), ("pd", "py"), ("pa", "pd", "py")])
        return "multi-fw", S.gen_spec(rng, max_feats=6, frameworks=fws, allow_multi_fw=True, allow_options=False, single_parent=True)
    if r < 0.7:
        fws = rng.choice([("pa", "pd"), ("pa", "py")])
        return "multi-fw+options", S.gen_spec(rng, max_feats=5, frameworks=fws, allow_multi_fw=True, allow_options=True, single_parent=True)
    if r < 0.85:
        return "join-dag", S.gen_join_dag_spec(rng)
    if r < 0.93:
        return "star", S.gen_star_spec(rng)
    return "link", S.gen_link_spec(rng, jointypes=("inner", "left", "outer"))


def parents_by_feature(layout: str, spec: Dict[str, Any]) -> Dict[str, List[str]]:
    groups = spec["groups"] if "groups" in spec else S.link_groups(spec)
    return {f: list(d["parents"]) for g in groups for f, d in g["features"].items()}


def jd_split_step(spec: Dict[str, Any]) -> bool:
    """join-DAG spec: among the consumer group's features that the request needs (closure of the request) one descends from the
    left source only, one from the right source only, and none from both - the planner then plans NO join step, yet puts the
    features into one step on one object."""
    defs = {f: d for g in S.link_groups(spec) for f, d in g["features"].items()}
    need: Set[str] = set()

    def go(f: str) -> None:
        if f in need:
            return
        need.add(f)
        for p_ in defs.get(f, {}).get("parents", []):
            go(p_)

    for r in spec["request"]:
        go(r["name"])
    sd = S.jd_sides(spec)
    cons = [f for f in spec["consumer"]["features"] if f in need]
    l, r_ = spec["links"][0]["left"], spec["links"][0]["right"]
    return any(sd[f] == {l} for f in cons) and any(sd[f] == {r_} for f in cons) and not any(len(sd[f]) == 2 for f in cons)


def e2e_class(layout: str, spec: Dict[str, Any], exp: Dict[str, Any]) -> Optional[str]:
    """the SAME input classes (same strings, same predicates) as harness/corr/c02.py uses for the open C02 findings"""
    if spec.get("joindag"):
        if jd_split_step(spec):
            return "consumer-step-spanning-two-sources-without-a-feature-over-both"
        # open finding (C01 lists it too): a later group consumes a feature of the join consumer that descends from the right source only
        return "join-consumer-right-only-feature-consumed-later" if S.jd_top_on_right_only(spec) else None
    if "sources" in spec and len(spec["sources"]) >= 3 and len({x["fw"] for x in spec["sources"]} | {spec["consumer"]["fw"]}) >= 2 and not spec.get("star") and not spec.get("longchain"):
        # open finding family of C04 / C05 (same predicate as harness/corr/c04.py): three sources that are not all on one framework
        return "three-sources-across-frameworks"
    if "groups" not in spec:
        return None
    from harness.corr.c02 import round_trip

    multi = len({x["fw"] for x in spec["roots"] + spec["groups"]}) > 1
    has_opts = any(rq["options"] for rq in spec["request"])
    if multi and round_trip(spec):
        return "framework-round-trip-chain"
    if multi and max([0] + [sum(1 for t_ in exp["steps"] if t_["kind"] == "tfs" and t_["to"] == st_["to"]) for st_ in exp["steps"] if st_["kind"] == "tfs"]) >= 2:
        return "several-transform-steps-to-one-framework"
    if multi and has_opts:
        return "multi-framework-request-with-option-variants"
    return None


def plan_wait_cycle(exp: Dict[str, Any]) -> bool:
    """the exported plan has a cycle in its wait-for relation (step -> producers of its required uuids): compute() would spin"""
    prod: Dict[int, int] = {}
    for i, st in enumerate(exp["steps"]):
        for u in st["outs"]:
            prod[u] = i
    deps = [{prod[r] for r in st["req"] if r in prod} - {i} for i, st in enumerate(exp["steps"])]
    state = [0] * len(deps)

    def dfs(i: int) -> bool:
        state[i] = 1
        for j in deps[i]:
            if state[j] == 1 or (state[j] == 0 and dfs(j)):
                return True
        state[i] = 2
        return False

    return any(state[i] == 0 and dfs(i) for i in range(len(deps)))


def e2e_suite(ctx: Ctx, n: int, fixed: Optional[List[Tuple[str, Dict[str, Any]]]] = None) -> None:
    rng = sub_rng(ctx, "cfw_e2e")
    reqs: List[Dict[str, Any]] = []
    metas: List[Any] = []
    for k_ in range(len(fixed) if fixed is not None else n):
        layout, spec = fixed[k_] if fixed is not None else gen_e2e(rng)
        try:
            sess = S.prepare(spec, S.build_classes(spec)) if "groups" in spec else S.prepare_link(spec)
        except Exception as e:
            ctx.case("cfw_e2e", {"layout": layout, "spec": spec}, False, cfw_e2e_layout=layout, cfw_e2e_outcome="rejected")
            if "groups" in spec:
                ctx.violation("cfw_e2e", {"spec": spec}, f"link-free request rejected at prepare: {e!r}"[:300])
            continue
        exp = S.export_plan(sess)
        fclass = e2e_class(layout, spec, exp)
        case = {"layout": layout, "spec": spec}
        if plan_wait_cycle(exp):
            # not run: the orchestrator would spin for ever (and keep a thread of this check busy)
            ctx.case("cfw_e2e", case, True, cfw_e2e_layout=layout, cfw_e2e_outcome="wait-cycle-not-run", cfw_e2e_class=fclass or "-")
            ctx.violation("cfw_e2e", case, "the accepted plan has a wait-for cycle (a transform / join step requires a uuid produced by a step that waits for it): the run would never end", None, None,
                          finding_class=fclass)  # fmt: skip
            continue
        rr, log = record_run(sess)
        kinds = {e["step"]["kind"] for e in log if e["k"] == "prepare"}
        ctx.case("cfw_e2e", case, len(kinds) >= 2 or any(e["k"] == "merge" for e in log), cfw_e2e_layout=layout, cfw_e2e_outcome="error" if rr.error else "ok",
                 cfw_e2e_class=fclass or "-")  # fmt: skip
        if rr.timed_out:
            ctx.violation("cfw_e2e", case, "SYNC run did not terminate", None, None)
            continue
        # ---- oracle (C02): the object handed to a feature-group step holds the columns of all its input features
        par = parents_by_feature(layout, spec)
        idx = exp["_step_uuid_to_idx"]
        for e in log:
            if e["k"] != "prepare" or e["step"]["kind"] != "fg" or "ok" not in e.get("ret", {}):
                continue
            st = exp["steps"][idx[e["step_uuid"]]]
            need: Set[str] = set()
            for f in st["features"]:
                need |= set(par.get(f, []))
            ctx.tag("cfw_e2e_fg", "fresh" if e["fresh"] else "existing")
            if e["step"]["tfs"]:
                # does the pre-look-up by tfs id find anything?  (it can only if some registered object LISTS the id among its children)
                listed = any(t in ch for t in e["step"]["tfs"] for _, c_, ch in e["before"]["cfws"] if c_ == e["step"]["cls"])
                ctx.tag("cfw_e2e_tfs_prelookup", ("join-plan:" if "sources" in spec else "link-free:") + ("hit" if listed else "miss"))
            if e.get("cols") is None:
                continue
            missing = sorted(need - set(e["cols"]))
            if missing:
                ctx.violation("cfw_e2e", case, f"feature-group step {st['group']}:{st['features']} was handed a compute-framework object ({e['obj_cls']}) without the columns {missing} of its input features",
                              e["cols"], sorted(need), finding_class=fclass)  # fmt: skip
            if e["obj_cls"] != st["fw"]:
                ctx.violation("cfw_e2e", case, f"feature-group step on {st['fw']} was handed an object of class {e['obj_cls']}", e["obj_cls"], st["fw"], finding_class=fclass)
        # ---- the invariant of C02.cfw_lookup_unique_partial on the final registry: same-class objects list disjoint children
        final = next((e["after"]["cfws"] for e in reversed(log) if e["k"] == "prepare" and "after" in e), [])
        disjoint = all(not (set(a[2]) & set(b[2])) for i, a in enumerate(final) for b in final[i + 1 :] if a[1] == b[1])
        ctx.tag("cfw_e2e_disjoint_invariant", ("link-free:" if "groups" in spec else "join-plan:") + ("holds" if disjoint else "violated") + (":" + fclass if fclass else ""))
        if "groups" in spec and not disjoint:
            ctx.violation("cfw_e2e", case, "two registered compute-framework objects of one class list a common uuid in a link-free plan: which of them a step is handed depends on the registration order",
                          [c_ for c_ in final], "pairwise disjoint children per class", finding_class=fclass)  # fmt: skip
        # ---- a placement call of an accepted plan must not raise
        for e in log:
            if e["k"] in ("prepare", "from") and "err" in e.get("ret", {}):
                ctx.tag("cfw_e2e_placement_raised", f"{e['k']}:{e['step']['kind']}:{e['ret']['err']}")
                ctx.violation("cfw_e2e", case, f"{'prepare_execute_step' if e['k'] == 'prepare' else 'prepare_tfs_and_joinstep'} raised ({e['ret']['err']}) for a {e['step']['kind']} step of an accepted plan",
                              e["ret"]["err"], "an object", finding_class=fclass)  # fmt: skip
        # ---- Exec's hypothesis (C02.exec_shared_object_hypothesis): a link-free request on one framework without option variants
        #      runs on ONE compute-framework object
        if layout == "single-fw" and not any(rq["options"] for rq in spec["request"]) and not rr.error:
            fgs = [e for e in log if e["k"] == "prepare" and e["step"]["kind"] == "fg" and "ok" in e.get("ret", {})]
            objs = {e["ret"]["ok"] for e in fgs}
            hyp = bool(fgs) and all(e["step"]["any"] in fgs[0]["step"]["children"] and not e["step"]["tfs"] for e in fgs[1:])
            ctx.tag("cfw_e2e_exec_hypothesis", "holds" if hyp else "fails")
            if len(objs) > 1:
                ctx.violation("cfw_e2e", case, "the feature-group steps of a link-free single-framework plan were handed different compute-framework objects", sorted(objs), "one object")
            elif not hyp:
                ctx.violation("cfw_e2e", case, "a later step's any_uuid is not among the children_if_root registered by the first step (placement hypothesis of the Exec model)", None, None)
        # ---- model replay: every recorded transition from its recorded pre-state
        calls = []
        for e in log:
            if e["k"] == "prepare":
                calls.append(({"op": "C02_cfw.seq", "exe": e["before"], "calls": [{"k": "prepare", "step": e["step"], "fresh": e["fresh"]}]}, e))
            elif e["k"] == "from":
                calls.append(({"op": "C02_cfw.seq", "exe": e["before"], "calls": [{"k": "from", "step": e["step"]}]}, e))
            else:
                calls.append(({"op": "C02_cfw.seq", "exe": {"cfws": [], "rel": e["before_rel"], "coll": []}, "calls": [{"k": "merge", "l": e["l"], "r": e["r"], "c": e["c"]}]}, e))
        for rq, e in calls:
            reqs.append(rq)
            metas.append((case, e))
        # ---- the recorded sequence threaded through the model's own state (first call's pre-state = empty executor)
        seq = []
        for e in log:
            if e["k"] == "prepare":
                seq.append({"k": "prepare", "step": e["step"], "fresh": e["fresh"]})
            elif e["k"] == "from":
                seq.append({"k": "from", "step": e["step"]})
            else:
                seq.append({"k": "merge", "l": e["l"], "r": e["r"], "c": e["c"]})
        if seq:
            reqs.append({"op": "C02_cfw.seq", "exe": {"cfws": [], "rel": [], "coll": []}, "calls": seq})
            metas.append((case, log))
    outs = ctx.driver(DRIVER).batch(reqs)
    for rq, (case, e), mo in zip(reqs, metas, outs):
        if isinstance(e, list):
            for i, (ent, b) in enumerate(zip(e, mo)):
                impl_ret = ent.get("ret", {"ok": None}) if ent["k"] != "merge" else {"ok": None}
                if ent["k"] == "merge":
                    impl_state, model_state = sorted(ent["after_rel"]), sorted(b["exe"]["rel"])
                else:
                    impl_state, model_state = canon_exe(ent["after"]), canon_exe(b["exe"])
                if impl_ret != b["ret"] or impl_state != model_state:
                    ctx.disagree("cfw_e2e", {"case": case, "threaded_upto": i, "call": rq["calls"][i]}, {"ret": impl_ret, "state": impl_state}, {"ret": b["ret"], "state": model_state})
                    break
            continue
        b = mo[0]
        if e["k"] == "merge":
            if sorted(e["after_rel"]) != sorted(b["exe"]["rel"]):
                ctx.disagree("cfw_e2e", {"case": case, "call": rq}, sorted(e["after_rel"]), sorted(b["exe"]["rel"]))
        else:
            if e.get("ret") != b["ret"] or canon_exe(e["after"]) != canon_exe(b["exe"]):
                ctx.disagree("cfw_e2e", {"case": case, "call": rq}, {"ret": e.get("ret"), "exe": canon_exe(e["after"])}, {"ret": b["ret"], "exe": canon_exe(b["exe"])})


def run(ctx: Ctx) -> None:
    ops_suite(ctx, ctx.budget(400, 6000), ctx.budget(6, 40))
    spin_suite(ctx)
    witness_suite(ctx)
    prepare_suite(ctx, ctx.budget(300, 5000))
    mode_suite(ctx)
    e2e_suite(ctx, ctx.budget(90, 1500))
    S.stop_flight_server()


def search(ctx: Ctx, broken: List[str]) -> None:
    run(ctx)


def replay(ctx: Ctx, body: Dict[str, Any]) -> None:
    """Re-execute the recorded failing input: an e2e case is re-run from its spec, a CfwManager history from its call list;
    other suites are regenerated from the recorded seed and tier (their random streams depend on nothing else)."""
    ctx.seed = int(body.get("seed", ctx.seed))
    ctx.tier = body.get("tier", ctx.tier)
    suite = body.get("suite")
    case = body.get("case") or {}
    if suite == "cfw_e2e" and isinstance(case, dict) and "spec" in case:
        e2e_suite(ctx, 1, fixed=[(case.get("layout", "replay"), case["spec"])])
    elif suite == "cfw_ops" and isinstance(case, dict) and "ops" in case:
        ops_suite(ctx, 1, 10**6, fixed=case["ops"])
    elif suite == "cfw_ops":
        ops_suite(ctx, ctx.budget(400, 6000), ctx.budget(6, 40))
    elif suite == "cfw_prepare":
        prepare_suite(ctx, ctx.budget(300, 5000))
    elif suite == "cfw_spin":
        spin_suite(ctx)
    elif suite == "cfw_witness":
        witness_suite(ctx)
    elif suite == "cfw_mode":
        mode_suite(ctx)
    else:
        run(ctx)
    S.stop_flight_server()
