"""C09 extension `life`: DataLifecycleManager and the drop protocol across the orchestrator (model: lean/MlodaVerif/Model/Lifecycle.lean).

Function level (real objects, a harness-side in-memory stand-in for the Arrow Flight store):
  * `history`  - seeded event histories on a real ExecutionOrchestrator + DataLifecycleManager + ComputeFrameworkExecutor + CfwManager with
                 real PyArrowTable / PandasDataFrame objects: init_compute_framework, set_data, upload_finished_data, _process_step_result
                 (+ _mark_step_as_finished), _drop_data_for_finished_cfws, track_flyway_datasets, get_results, pop_result_data_collection,
                 _drop_remaining_flight_data  vs  Life.step
  * `worker`   - the real `multiprocessing_worker.worker` function run in this process on plain queues with scripted step commands vs Life.wloop
  * `queues`   - real WorkerManager.poll_result_queues / wait_for_drop_completion on real multiprocessing.Queue objects vs Life.poll / Life.waitDrop
End to end (SYNC and THREADING; MULTIPROCESSING is c09.py's):
  * `e2e`      - generated requests with harness-side wrappers around drop_last_data, Step.execute, _process_step_result,
                 _drop_data_for_finished_cfws, init_compute_framework; the orchestrator's own event sequence is replayed through Life.step
                 (drop calls, tracker, track_data_to_drop, result keys must agree) and the oracle looks at the real objects.
"""
from __future__ import annotations

import queue as pyqueue
import threading
import time
from typing import Any, Dict, List, Optional, Set, Tuple
from uuid import UUID

from harness.core import Ctx

SUITES = {"life_history", "life_worker", "life_queues", "life_e2e", "life_witness"}

ASSUMPTIONS = [
    "life: the Arrow Flight store is replaced by a harness-side dict behind FlightServer.upload_table/download_table/drop_tables in the function-level suites (upload needs a location and a table with a schema; download of a missing key raises)",
    "life: multiprocessing.Queue is FIFO per producer; the worker function is run in-process on queue.Queue objects with scripted Step.execute (the body of a step is not part of this model)",
    "life: in the e2e suite the orchestrator's actions are observed by harness-side wrappers (no change to /repo); the orchestrator loop is single threaded, only Step.execute runs in worker threads",
]

DRIVER = "C09_life"


def U(n: int) -> UUID:
    return UUID(int=int(n) + 1)


def N(u: Any) -> int:
    if isinstance(u, str):
        u = UUID(u)
    return u.int - 1


# ------------------------------------------------------------------------------------------------------------------
# stand-in for the flight store


class FakeFlight:
    """Replaces the three static methods every upload / download / drop goes through by a dict (insertion ordered)."""

    def __init__(self) -> None:
        self.tables: Dict[str, Any] = {}

    def __enter__(self) -> "FakeFlight":
        from mloda.core.runtime.flight.flight_server import FlightServer as FS

        self._saved = {n: FS.__dict__[n] for n in ("upload_table", "download_table", "drop_tables")}
        store = self.tables

        def upload_table(location: str, table: Any, table_key: str) -> None:
            if not location:
                raise ConnectionError("VERIF no location")
            table.schema  # the real client calls client.do_put(descriptor, table.schema): AttributeError for None / a key string
            store[table_key] = table

        def download_table(location: str, table_key: Any) -> Any:
            if not location:
                raise ConnectionError("VERIF no location")
            if table_key not in store:
                raise KeyError(f"Table with key {table_key} not found")
            return store[table_key]

        def drop_tables(location: str, table_key: Set[str]) -> None:
            if not location:
                raise ConnectionError("VERIF no location")
            for k in table_key:
                store.pop(k, None)

        FS.upload_table = staticmethod(upload_table)  # type: ignore[method-assign]
        FS.download_table = staticmethod(download_table)  # type: ignore[method-assign]
        FS.drop_tables = staticmethod(drop_tables)  # type: ignore[method-assign]
        return self

    def __exit__(self, *a: Any) -> None:
        from mloda.core.runtime.flight.flight_server import FlightServer as FS

        for n, v in self._saved.items():
            setattr(FS, n, v)

    def keys(self) -> List[int]:
        return [N(k) for k in self.tables]


LOC = "grpc://verif-fake:1"
ANCHOR = 1000  # every object o has the private child uuid ANCHOR + o: `get_cfw` finds the object through it
FEATS = list(range(10, 16))


def classify(e: BaseException) -> str:
    msg = str(e)
    if isinstance(e, ConnectionError):
        return "noLocation"
    if isinstance(e, ValueError) and "already exists" in msg:
        return "duplicateUuid"
    if isinstance(e, ValueError) and "No compute framework registered" in msg:
        return "noObject"
    if isinstance(e, ValueError) and "Not implemented" in msg:
        return "notImplemented"
    if isinstance(e, ValueError) and "No results found" in msg:
        return "noResults"
    if isinstance(e, KeyError) and "not found" in msg:
        return "notFound"
    if isinstance(e, KeyError):
        return "keyError"
    if isinstance(e, (AttributeError, TypeError)):
        return "badData"
    return f"other:{type(e).__name__}:{msg[:80]}"


class RealWorld:
    """A real orchestrator with its real collaborators, driven event by event."""

    def __init__(self, loc: bool, store: List[int], fake: FakeFlight, classes: Dict[int, str]) -> None:
        from mloda.core.runtime.run import ExecutionOrchestrator
        from mloda.core.runtime.compute_framework_executor import ComputeFrameworkExecutor
        from mloda.core.core.cfw_manager import CfwManager
        from mloda.core.abstract_plugins.components.parallelization_modes import ParallelizationMode
        from mloda.core.abstract_plugins.compute_framework import ComputeFramework
        import pyarrow as pa

        self.fake = fake
        fake.tables.clear()
        for k in store:
            fake.tables[str(U(k))] = pa.table({"foreign": [k]})
        self.orch = ExecutionOrchestrator([])  # type: ignore[arg-type]
        self.orch.location = LOC if loc else None
        self.orch.cfw_register = CfwManager({ParallelizationMode.SYNC})
        if loc:
            self.orch.cfw_register.set_location(LOC)
        self.orch.executor = ComputeFrameworkExecutor(self.orch.cfw_register, self.orch.worker_manager)
        self.finished: Set[UUID] = set()
        self.running: Set[UUID] = set()
        self.classes = classes
        self.yielded: List[List[int]] = []
        self.drops: List[List[Any]] = []
        self.cmdq: Dict[int, Any] = {}
        self.resq: Dict[int, Any] = {}
        self._cur_tracked = False
        self.mode = ParallelizationMode.SYNC
        self.CF = ComputeFramework

    def cls(self, o: int) -> Any:
        from harness import fgfactory as F

        return F.FRAMEWORKS[self.classes.get(o, "PyArrowTable")]

    def table(self, o: int) -> Any:
        from harness import fgfactory as F

        cols = {f"f{f}": [o] for f in FEATS + [ANCHOR + o]}
        return F.from_columns(cols, self.cls(o))

    def obj(self, o: int) -> Any:
        return self.orch.executor.cfw_collection.get(U(o))

    def apply(self, ev: List[Any]) -> Dict[str, Any]:
        """Returns {"err": name|None, "drops": [[obj, tracked, key, hadData]], ...}."""
        tag = ev[0]
        self.drops = []
        out: Dict[str, Any] = {"err": None}
        try:
            if tag == "register":
                o, ch = ev[1], ev[2]
                self.orch.executor.init_compute_framework(self.cls(o), self.mode, {U(c) for c in ch}, U(o))
            elif tag == "spawn":
                o = ev[1]
                if self.obj(o) is None:
                    raise ValueError("No compute framework registered. (harness: multi_execute_step would fail on cfw_collection[uuid])")
                wm = self.orch.worker_manager
                if wm.get_process_queues(U(o)) is None:  # what multi_execute_step / create_worker_process register (no OS process here)
                    self.cmdq[o] = pyqueue.Queue()
                    self.resq[o] = pyqueue.Queue() if ev[2] else None
                    wm.process_register[U(o)] = (None, self.cmdq[o], self.resq[o])
            elif tag == "calc":
                c = self.obj(ev[1])
                if c is None:
                    raise ValueError("No compute framework registered. (harness)")
                c.set_data(self.table(ev[1]))
            elif tag in ("uploadKeep", "uploadReplace"):
                c = self.obj(ev[1])
                if c is None:
                    raise ValueError("No compute framework registered. (harness)")
                k = c.upload_finished_data(self.orch.location)  # type: ignore[arg-type]
                if tag == "uploadReplace":
                    c.data = k  # run_calculation: self.data = self.upload_finished_data(location)
            elif tag == "setFlyway":
                self.orch.cfw_register.add_uuid_flyway_datasets(U(ev[1]), {U(i) for i in ev[2]})
            elif tag == "trackFlyway":
                self.orch.data_lifecycle_manager.track_flyway_datasets(U(ev[1]), {U(i) for i in ev[2]})
            elif tag == "fgDone":
                self._cur_tracked = False
                step = self.fg_step(ev[1], ev[2], ev[3], ev[4])
                o = ev[1]
                rq = self.resq.get(o)
                noise = None
                if rq is not None:
                    noise = f"{U(900 + o)}"
                    rq.put(noise)  # a step result that is already waiting in the queue must survive the wait
                    rq.put(("DROP_COMPLETE", U(o)))  # the worker's answer (the harness plays the worker)
                try:
                    done = self.orch._process_step_result(step)
                    if done:
                        self.orch._mark_step_as_finished(step.get_uuids(), self.finished, self.running)
                    reached_wait = True
                except Exception:
                    reached_wait = False
                    raise
                finally:
                    if rq is not None:
                        left = []
                        while True:
                            try:
                                left.append(rq.get(block=False))
                            except pyqueue.Empty:
                                break
                        if reached_wait:
                            out["queue_left"] = [m if isinstance(m, str) else list(map(str, m)) for m in left]
                            out["noise_kept"] = left == [noise]
            elif tag == "otherDone":
                from mloda.core.core.step.transform_frame_work_step import TransformFrameworkStep
                from harness import fgfactory as F

                st = TransformFrameworkStep(F.PyArrowTable, F.PandasDataFrame, set(), _dummy_fg(), _dummy_fg())
                st.step_is_done = True
                if self.orch._process_step_result(st):
                    self.orch._mark_step_as_finished({U(i) for i in ev[1]}, self.finished, self.running)
            elif tag == "periodic":
                self._cur_tracked = True
                dlm = self.orch.data_lifecycle_manager
                out["tracked_before"] = {N(k): sorted(N(x) for x in v) for k, v in dlm.track_data_to_drop.items()}
                out["finished_before"] = sorted(N(x) for x in self.finished)
                try:
                    self.orch._drop_data_for_finished_cfws(self.finished)
                finally:
                    out["tracked_after"] = {N(k): sorted(N(x) for x in v) for k, v in dlm.track_data_to_drop.items()}
            elif tag == "pop":
                gen = self.orch.data_lifecycle_manager.pop_result_data_collection()
                item = next(gen, None)
                gen.close()
                if item is not None:
                    self.yielded.append([N(item[0]), _payload(item[1])])
            elif tag == "popAll":
                for su, res in self.orch.data_lifecycle_manager.pop_result_data_collection():
                    self.yielded.append([N(su), _payload(res)])
            elif tag == "getResults":
                out["values"] = [_payload(r) for r in self.orch.get_result()]
            elif tag == "final":
                self.orch._drop_remaining_flight_data()
            else:
                raise RuntimeError(f"unknown event {ev}")
        except Exception as e:  # noqa: BLE001 - every exception of the real code is an outcome to compare
            out["err"] = classify(e)
        out["drops"] = list(self.drops)
        return out

    def fg_step(self, o: int, st: int, feats: List[int], req: bool) -> Any:
        from mloda.core.core.step.feature_group_step import FeatureGroupStep
        from mloda.core.abstract_plugins.components.feature_set import FeatureSet
        from mloda.core.abstract_plugins.components.feature import Feature

        fs = FeatureSet()
        for i, f in enumerate(feats):
            ft = Feature(f"f{f}")
            ft.uuid = U(f)
            ft.initial_requested_data = bool(req and i == 0)
            fs.add(ft)
        fs.any_uuid = U(ANCHOR + o)
        c = self.obj(o)
        if c is not None and U(ANCHOR + o) not in c.children_if_root and c.children_if_root:
            fs.any_uuid = sorted(c.children_if_root)[0]  # the witness histories of the Lean file have no private child: any child finds the (only) object
        step = FeatureGroupStep(_dummy_fg(), fs, set(), self.cls(o), set())
        step.uuid = U(st)
        step.step_is_done = True
        return step

    def snapshot(self) -> Dict[str, Any]:
        objs = []
        for u, c in self.orch.executor.cfw_collection.items():
            o = N(u)
            q = None
            if o in self.cmdq:
                q = [sorted(N(x) for x in cmd) for cmd in list(self.cmdq[o].queue)]
            objs.append([o, {"children": sorted(N(x) for x in c.children_if_root), "tracker": sorted(N(x) for x in c.already_calculated_children_tracker),
                             "key": N(c.data) if isinstance(c.data, str) else None, "table": c.data is not None and not isinstance(c.data, str),
                             "nobj": len(c.object_ids), "queue": q}])  # fmt: skip
        dlm = self.orch.data_lifecycle_manager
        return {
            "objs": objs,
            "track": [[N(k), sorted(N(x) for x in v)] for k, v in dlm.track_data_to_drop.items()],
            "results": [[N(k), _payload(v)] for k, v in dlm.result_data_collection.items()],
            "yielded": self.yielded,
            "finished": sorted(N(x) for x in self.finished),
            "store": self.fake.keys(),
        }


_DUMMY: List[Any] = []


def _dummy_fg() -> Any:
    if not _DUMMY:
        from harness import fgfactory as F

        _DUMMY.append(F.make_group(F.uniq("LifeDummy"), root_data={"x": [1]}))
    return _DUMMY[0]


def _payload(res: Any) -> Optional[int]:
    from harness import fgfactory as F

    try:
        cols = F.to_columns(res)
        return int(next(iter(cols.values()))[0])
    except Exception:
        return None


def canon_model_state(s: Dict[str, Any]) -> Dict[str, Any]:
    objs = []
    for o, d in s["objs"]:
        objs.append([o, {"children": sorted(d["children"]), "tracker": sorted(d["tracker"]), "key": d["key"], "table": d["table"], "nobj": d["nobj"],
                         "queue": None if d["queue"] is None else [sorted(x) for x in d["queue"]]}])  # fmt: skip
    return {"objs": objs, "track": [[k, sorted(v)] for k, v in s["track"]], "results": s["results"], "yielded": s["yielded"],
            "finished": sorted(s["finished"]), "store": s["store"]}  # fmt: skip


def gen_history(rng: Any, loc: bool) -> Tuple[List[List[Any]], Dict[int, str], List[int]]:
    nobj = rng.randint(1, 3)
    classes = {o: ("PyArrowTable" if loc or rng.random() < 0.6 else "PandasDataFrame") for o in range(1, nobj + 2)}
    store0 = [77] if rng.random() < 0.3 else []
    evs: List[List[Any]] = []
    children: Dict[int, List[int]] = {}
    for o in range(1, nobj + 1):
        ch = rng.sample(FEATS, rng.randint(0, 3)) + [ANCHOR + o]
        children[o] = ch
        evs.append(["register", o, ch])
    step_id = 50
    n = rng.randint(3, 14)
    for _ in range(n):
        r = rng.random()
        o = rng.randint(1, nobj) if rng.random() < 0.93 else nobj + 1  # sometimes an object that was never registered
        if r < 0.34:
            ch = children.get(o, FEATS)
            pool = ch + (FEATS if rng.random() < 0.3 else [])
            F_ = sorted(set(rng.sample(pool, min(len(pool), rng.randint(1, 3)))))
            if rng.random() < 0.1:
                st = rng.randint(50, max(50, step_id - 1)) if step_id > 50 else step_id  # a repeated step uuid (dict overwrite)
            else:
                st = step_id
                step_id += 1
            evs.append(["fgDone", o, st, F_, rng.random() < 0.6])
        elif r < 0.50:
            evs.append(["calc", o])
        elif r < 0.58:
            # upload_table converts the data of a non-Arrow object to a pyarrow table IN PLACE before it uploads (conversions are C14's
            # subject): uploads are generated for PyArrowTable objects only
            evs.append(["uploadKeep" if rng.random() < 0.5 else "uploadReplace", o] if classes.get(o) == "PyArrowTable" else ["calc", o])
        elif r < 0.72:
            evs.append(["periodic"])
        elif r < 0.77:
            evs.append(["otherDone", sorted(set(rng.sample(FEATS + [ANCHOR + 1, ANCHOR + 2, 30, 31], rng.randint(1, 2))))])
        elif r < 0.82:
            evs.append(["setFlyway", o, sorted(set(rng.sample(FEATS, rng.randint(0, 2))))])
        elif r < 0.85:
            evs.append(["trackFlyway", o, sorted(set(rng.sample(FEATS, rng.randint(0, 2))))])
        elif r < 0.90:
            evs.append(["spawn", o, rng.random() < 0.7])
        elif r < 0.93:
            evs.append(["pop"])
        elif r < 0.95:
            evs.append(["popAll"])
        elif r < 0.98:
            evs.append(["getResults"])
        else:
            evs.append(["register", o, children.get(o, [ANCHOR + o])])  # duplicate uuid (or the late registration of the extra object)
    if rng.random() < 0.5:
        evs.append(["getResults"])
    if rng.random() < 0.6:
        evs.append(["final"])
    return evs, classes, store0


def strip(ev: List[Any]) -> List[Any]:
    return ev[:2] if ev[0] == "spawn" else ev


def install_drop_recorder(world_ref: List[Any]) -> Any:
    """Harness-side wrapper around ComputeFramework.drop_last_data: records (object, tracked?, key removed from the store, had data)."""
    from mloda.core.abstract_plugins.compute_framework import ComputeFramework

    orig = ComputeFramework.drop_last_data

    def drop_last_data(self: Any, location: Optional[str] = None) -> None:
        w = world_ref[0] if world_ref else None
        before = set(w.fake.tables) if w is not None else set()
        had = self.data is not None
        orig(self, location)
        if w is not None:
            gone = before - set(w.fake.tables)
            w.drops.append([N(self.uuid), w._cur_tracked, (N(next(iter(gone))) if gone else None), had])

    ComputeFramework.drop_last_data = drop_last_data  # type: ignore[method-assign]
    return orig


# the closed witnesses of Props/C09_life.lean as histories (replayed on the real objects by every run); `expect`: what the Lean
# theorem states about them (drop log [obj, tracked, key, hadData] and store at the end)
WITNESS_HISTORIES: List[Dict[str, Any]] = [
    {"name": "C09.life_upload_keep_leaks_until_final_witness", "loc": True, "store": [],
     "evs": [["register", 1, [10]], ["calc", 1], ["uploadKeep", 1], ["fgDone", 1, 50, [10], False]],
     "expect": {"drops": [[1, False, None, True]], "store": [1]}},
    {"name": "C09.life_upload_keep_leaks_until_final_witness (after finally)", "loc": True, "store": [],
     "evs": [["register", 1, [10]], ["calc", 1], ["uploadKeep", 1], ["fgDone", 1, 50, [10], False], ["final"]],
     "expect": {"drops": [[1, False, None, True]], "store": []}},
    {"name": "C09.life_tracked_drop_on_main_copy_is_noop_witness", "loc": True, "store": [1],
     "evs": [["register", 1, [10]], ["spawn", 1, False], ["setFlyway", 1, [10]], ["fgDone", 1, 50, [10], False], ["periodic"]],
     "expect": {"drops": [[1, True, None, False]], "store": [1]}},
    {"name": "C09.life_second_drop_is_empty_witness", "loc": True, "store": [],
     "evs": [["register", 1, [10, 11]], ["calc", 1], ["uploadReplace", 1], ["fgDone", 1, 50, [10], False], ["fgDone", 1, 51, [11], False], ["periodic"]],
     "expect": {"drops": [[1, False, 1, True], [1, True, None, False]], "store": []}},
]


def history_suite(ctx: Ctx, n: int) -> None:
    from mloda.core.abstract_plugins.compute_framework import ComputeFramework

    world_ref: List[Any] = []
    orig = install_drop_recorder(world_ref)
    reqs, impls, cases = [], [], []
    try:
        with FakeFlight() as fake:
            for i in range(n + len(WITNESS_HISTORIES)):
                wit = WITNESS_HISTORIES[i] if i < len(WITNESS_HISTORIES) else None
                if wit is not None:
                    loc, evs, classes, store0 = wit["loc"], wit["evs"], {1: "PyArrowTable"}, wit["store"]
                else:
                    loc = ctx.rng.random() < 0.55
                    evs, classes, store0 = gen_history(ctx.rng, loc)
                w = RealWorld(loc, store0, fake, classes)
                world_ref[:] = [w]
                outs = []
                for ev in evs:
                    outs.append(w.apply(ev))
                snap = w.snapshot()
                case = {"loc": loc, "store": store0, "evs": evs, "classes": classes}
                ndrops = sum(len(o["drops"]) for o in outs)
                ctx.case("life_witness" if wit else "life_history", case, ndrops > 0 or any(o["err"] for o in outs), loc=loc, drops=min(ndrops, 3))
                for o_ in outs:
                    ctx.tag("life_history_outcome", o_["err"] or "ok")
                if wit is not None:
                    got = {"drops": [d for o_ in outs for d in o_["drops"]], "store": snap["store"]}
                    if got != wit["expect"] or any(o_["err"] for o_ in outs):
                        ctx.disagree("life_witness", {"witness": wit["name"], **case}, got, wit["expect"])
                oracle_history(ctx, case, evs, outs, snap)
                reqs.append({"op": "C09.lifeRun", "loc": loc, "store": store0, "evs": [strip(e) for e in evs]})
                impls.append({"outs": [{"err": o["err"], "drops": o["drops"], **({"values": o["values"]} if "values" in o else {})} for o in outs], "state": snap})
                for o_ in outs:  # JSON keys are strings: keep the evidence/replay files loadable
                    for k_ in ("tracked_before", "tracked_after"):
                        if k_ in o_:
                            o_[k_] = {str(a): b for a, b in o_[k_].items()}
                cases.append(case)
    finally:
        ComputeFramework.drop_last_data = orig  # type: ignore[method-assign]
    for case, im, o in zip(cases, impls, ctx.driver(DRIVER).batch(reqs)):
        model = {"outs": [{"err": x.get("err"), **({"drops": x["drops"]} if "drops" in x else {"drops": []}), **({"values": x["values"]} if "values" in x else {})} for x in o["outs"]],
                 "state": canon_model_state(o["state"])}  # fmt: skip
        if model != im:
            ctx.disagree("life_history", case, im, model)


def oracle_history(ctx: Ctx, case: Any, evs: List[List[Any]], outs: List[Dict[str, Any]], snap: Dict[str, Any]) -> None:
    """Written from the property text, evaluated on the real objects' behaviour only."""
    children: Dict[int, Set[int]] = {}
    reported: Dict[int, Set[int]] = {}
    finished: Set[int] = set()
    tracked: Dict[int, Set[int]] = {}
    worker: Set[int] = set()
    seen_steps: Dict[int, bool] = {}
    for ev, out in zip(evs, outs):
        tag = ev[0]
        if tag == "register" and out["err"] is None:
            children[ev[1]] = set(ev[2])
        if tag == "spawn" and out["err"] is None:
            worker.add(ev[1])
        if tag == "trackFlyway":
            tracked[ev[1]] = set(ev[2])
        if tag == "fgDone" and out["err"] is None:
            o = ev[1]
            if o not in worker:
                reported.setdefault(o, set()).update(ev[3])
            seen_steps[ev[2]] = seen_steps.get(ev[2], False) or bool(ev[4])
            if "noise_kept" in out and not out["noise_kept"]:
                ctx.violation("life_history", case, "a step result that was waiting in the result queue was lost or a DROP_COMPLETE was left behind by wait_for_drop_completion", out.get("queue_left"), "only the waiting step result")
        if tag == "periodic":
            tb, fb, ta = out.get("tracked_before", {}), set(out.get("finished_before", [])), out.get("tracked_after", {})
            for d in out["drops"]:
                # tracked path: only entries all of whose ids are in finished_ids
                if d[1] and not set(tb.get(d[0], [-1])) <= fb:
                    ctx.violation("life_history", case, f"object {d[0]} dropped through track_data_to_drop although ids {sorted(set(tb.get(d[0], [])) - fb)} are not finished", d, None)
            if out["err"] is None and fb:
                dropped = [d[0] for d in out["drops"] if d[1]]
                want = [o_ for o_, ids in tb.items() if set(ids) <= fb]
                if sorted(dropped) != sorted(want) or len(dropped) != len(set(dropped)):
                    ctx.violation("life_history", case, "drop_data_for_finished_cfws did not drop exactly the tracked objects whose ids are all finished, each once", dropped, want)
                if ta != {o_: ids for o_, ids in tb.items() if not set(ids) <= fb}:
                    ctx.violation("life_history", case, "after drop_data_for_finished_cfws the tracked entries are not exactly the unfinished ones", ta, {o_: ids for o_, ids in tb.items() if not set(ids) <= fb})
        for d in out["drops"]:
            o, via_tracked, key, had = d
            if not via_tracked:
                # in-process path: only when every uuid of children_if_root has been reported by a finished step (SET inclusion)
                if not children.get(o, set()) <= reported.get(o, set()):
                    ctx.violation("life_history", case, f"object {o} dropped although children {sorted(children.get(o, set()) - reported.get(o, set()))} were never reported", d, None)
        if tag == "fgDone" and out["err"] is None:
            finished |= set(ev[3])
        if tag == "otherDone" and out["err"] is None:
            finished |= set(ev[1])
    # results: at most one entry per step uuid, only for steps with initially requested features
    keys = [k for k, _ in snap["results"]] + [k for k, _ in snap["yielded"]]
    for k in keys:
        if not seen_steps.get(k, False):
            ctx.violation("life_history", case, f"result entry for step {k} that has no initially requested feature / was never processed", keys, None)
    rk = [k for k, _ in snap["results"]]
    if len(rk) != len(set(rk)):
        ctx.violation("life_history", case, "result_data_collection has two entries for one step uuid", rk, None)
    # after the final clean-up no key of the run's objects is in the store; foreign keys are untouched
    if evs and evs[-1][0] == "final" and case["loc"]:
        own = {o for o, _ in snap["objs"]}
        left = [k for k in snap["store"] if k in own]
        if left:
            ctx.violation("life_history", case, f"keys {left} of this run's objects are still in the store after _drop_remaining_flight_data", snap["store"], [])
        for k in case["store"]:
            if k not in own and k not in snap["store"]:
                ctx.violation("life_history", case, f"foreign key {k} was removed from the store", snap["store"], case["store"])


# ------------------------------------------------------------------------------------------------------------------
# the worker function


def worker_suite(ctx: Ctx, n: int) -> None:
    from mloda.core.runtime.worker import multiprocessing_worker as MW
    from mloda.core.core.cfw_manager import CfwManager
    from mloda.core.core.step.feature_group_step import FeatureGroupStep
    from mloda.core.abstract_plugins.components.feature_set import FeatureSet
    from mloda.core.abstract_plugins.components.feature import Feature
    from mloda.core.abstract_plugins.components.parallelization_modes import ParallelizationMode
    from mloda.core.abstract_plugins.compute_framework import ComputeFramework
    from mloda.core.runtime.flight.flight_server import FlightServer as FS
    from mloda_plugins.compute_framework.base_implementations.pyarrow.table import PyArrowTable
    import pyarrow as pa

    class ScriptedStep(FeatureGroupStep):
        """A FeatureGroupStep whose `execute` is scripted: what a step does to the object is not part of this model, only what
        the worker loop does with the outcome."""

        def __init__(self, sid: int, requested: bool, res: str, upload_fails: bool) -> None:  # super().__init__ deliberately not called
            self.uuid = U(sid)
            self.res = res
            self.upload_fails = upload_fails
            fs = FeatureSet()
            ft = Feature(f"f{FEATS[0]}")
            ft.initial_requested_data = requested
            fs.add(ft)
            self.features = fs

        def execute(self, cfw_register: Any, cfw: Any, from_cfw: Any = None, data: Any = None) -> Any:
            if self.res == "raise":
                raise RuntimeError("VERIF scripted failure")
            cfw.data = pa.table({f"f{FEATS[0]}": [1]})
            if self.res == "key":
                cfw.data = cfw.upload_finished_data(cfw_register.get_location())
            return cfw.data

    arm = {"on": False}
    drops_seen: List[Set[int]] = []
    orig_drop = ComputeFramework.drop_last_data
    orig_hcr = MW._handle_command_result

    def drop_last_data(self: Any, location: Optional[str] = None) -> None:
        drops_seen.append({N(x) for x in self.already_calculated_children_tracker})
        orig_drop(self, location)

    def hcr(command: Any, cfw_: Any, location: Any, data: Any, result_queue: Any) -> None:
        arm["on"] = bool(getattr(command, "upload_fails", False))  # the upload done by _handle_command_result for this step fails
        try:
            orig_hcr(command, cfw_, location, data, result_queue)
        finally:
            arm["on"] = False

    reqs, impls, cases = [], [], []
    with FakeFlight() as fake:
        inner = FS.__dict__["upload_table"].__func__

        def upload(location: str, table: Any, key: str) -> None:
            if arm["on"]:
                raise RuntimeError("VERIF upload failure")
            inner(location, table, key)

        FS.upload_table = staticmethod(upload)  # type: ignore[method-assign]
        MW._handle_command_result = hcr  # type: ignore[assignment]
        ComputeFramework.drop_last_data = drop_last_data  # type: ignore[method-assign]
        try:
            # C09.life_worker_one_result_per_step_witness: a raising step yields no result; a command behind the emptying drop is never read
            fixed = [([10], [["step", 50, False, "raise", False], ["step", 51, False, "table", False]]),
                     ([10], [["drop", [10]], ["step", 51, False, "table", False]])]
            for it in range(n + len(fixed)):
                o = 1
                children = ctx.rng.sample(FEATS, ctx.rng.randint(0, 3))
                cmds: List[List[Any]] = []
                sid = 50
                risky = ctx.rng.random() < 0.4
                if it < len(fixed):
                    children, cmds = fixed[it][0], fixed[it][1]
                for _ in range(ctx.rng.randint(1, 7) if it >= len(fixed) else 0):
                    r = ctx.rng.random()
                    if r < 0.45:
                        cmds.append(["step", sid, ctx.rng.random() < 0.5, ctx.rng.choice(["table", "table", "key", "raise"] if risky else ["table", "table", "key"]), risky and ctx.rng.random() < 0.25])
                        sid += 1
                    elif r < 0.93:
                        pool = children + (FEATS if ctx.rng.random() < 0.25 else [])
                        cmds.append(["drop", sorted(set(ctx.rng.sample(pool, min(len(pool), ctx.rng.randint(0, 2)))))] if pool else ["drop", []])
                    else:
                        cmds.append(["stop"])
                fake.tables.clear()
                drops_seen.clear()
                cq: Any = pyqueue.Queue()
                rq: Any = pyqueue.Queue()
                reg = CfwManager({ParallelizationMode.MULTIPROCESSING})
                reg.set_location(LOC)
                cfw = PyArrowTable(ParallelizationMode.MULTIPROCESSING, frozenset(U(c) for c in children), U(o))
                for c in cmds:
                    if c[0] == "stop":
                        cq.put("STOP")
                    elif c[0] == "drop":
                        cq.put({U(x) for x in c[1]})
                    else:
                        cq.put(ScriptedStep(c[1], c[2], c[3], c[4]))
                cq.put("STOP")  # the harness always ends the queue, otherwise the real loop polls forever
                th = threading.Thread(target=MW.worker, args=(cq, rq, reg, cfw, None), daemon=True)
                th.start()
                th.join(10)
                hung = th.is_alive()
                if hung:  # never wait for a worker loop that does not end: report it and stop the suite
                    cq.put("STOP")
                    ctx.violation("life_worker", {"children": children, "cmds": cmds}, "the worker loop did not end although its command queue ends with STOP", None, None)
                    break
                out = []
                while not rq.empty():
                    m = rq.get()
                    out.append(["done", N(m)] if isinstance(m, str) else ["dc", N(m[1])])
                impl = {"out": out, "tracker": sorted(N(x) for x in cfw.already_calculated_children_tracker), "key": N(cfw.data) if isinstance(cfw.data, str) else None,
                        "table": cfw.data is not None and not isinstance(cfw.data, str), "store": fake.keys(), "error": bool(reg.get_error()), "nobj": len(cfw.object_ids),
                        "left": len(list(cq.queue)), "hung": hung}  # fmt: skip
                case = {"children": children, "cmds": cmds}
                if it < len(fixed) and (any(x[0] == "done" for x in out) or (it == 0 and not impl["error"]) or (it == 1 and impl["left"] != 3)):
                    ctx.disagree("life_witness", {"witness": "C09.life_worker_one_result_per_step_witness", **case}, impl, "no result message; error flag / unread command")
                ctx.case("life_witness" if it < len(fixed) else "life_worker", case, any(c[0] == "step" for c in cmds) and any(c[0] == "drop" for c in cmds), steps=sum(c[0] == "step" for c in cmds), died_early=impl["left"] > 1)
                # oracle: at most one result message per step command, none without a step command, none for a step that raised
                done_ids = [x[1] for x in out if x[0] == "done"]
                step_ids = [c[1] for c in cmds if c[0] == "step"]
                if len(done_ids) != len(set(done_ids)) or any(d not in step_ids for d in done_ids):
                    ctx.violation("life_worker", case, "a step result message without (or twice for) a step command", out, step_ids)
                if any(c[0] == "step" and c[3] == "raise" and c[1] in done_ids for c in cmds):
                    ctx.violation("life_worker", case, "a step that raised was reported as done", out, None)
                # oracle: the worker drops its data only when every child was named by a drop command (SET inclusion)
                named = {x for c in cmds if c[0] == "drop" for x in c[1]}
                if drops_seen and not set(children) <= named:
                    ctx.violation("life_worker", case, f"the worker dropped its data although children {sorted(set(children) - named)} were never reported", drops_seen, None)
                reqs.append({"op": "C09.worker", "o": o, "children": children, "cmds": cmds})
                impls.append(impl)
                cases.append(case)
        finally:
            FS.upload_table = staticmethod(inner)  # type: ignore[method-assign]
            MW._handle_command_result = orig_hcr  # type: ignore[assignment]
            ComputeFramework.drop_last_data = orig_drop  # type: ignore[method-assign]
    for case, im, m in zip(cases, impls, ctx.driver(DRIVER).batch(reqs)):
        # left in the command queue: commands never read + the STOPs the worker put itself + the harness's final STOP unless the worker was alive to read it
        model = {"out": m["out"], "tracker": sorted(m["tracker"]), "key": m["key"], "table": m["table"], "store": m["store"], "error": m["error"], "nobj": m["nobj"],
                 "left": m["unread"] + m["ownStops"] + (0 if m["alive"] else 1), "hung": False}  # fmt: skip
        if model != im:
            ctx.disagree("life_worker", case, im, model)


# ------------------------------------------------------------------------------------------------------------------
# WorkerManager: poll_result_queues / wait_for_drop_completion on real multiprocessing queues


def _drain(q: Any, expect: int) -> List[Any]:
    out = []
    deadline = time.time() + 1.0
    while len(out) < expect and time.time() < deadline:
        try:
            out.append(q.get(timeout=0.05))
        except pyqueue.Empty:
            pass
    try:
        while True:
            out.append(q.get(timeout=0.02))
    except pyqueue.Empty:
        pass
    return out


def _msg(m: List[Any]) -> Any:
    return str(U(m[1])) if m[0] == "done" else ("DROP_COMPLETE", U(m[1]))


def _unmsg(x: Any) -> List[Any]:
    return ["done", N(x)] if isinstance(x, str) else ["dc", N(x[1])]


def queues_suite(ctx: Ctx, n: int) -> None:
    import multiprocessing
    from mloda.core.runtime.worker_manager import WorkerManager

    reqs, impls, cases, kinds = [], [], [], []
    for _ in range(n):
        if ctx.rng.random() < 0.5:
            # poll_result_queues
            nq = ctx.rng.randint(1, 3)
            content = [[(["done", ctx.rng.randint(1, 6)] if ctx.rng.random() < 0.8 else ["dc", ctx.rng.randint(1, 3)]) for _ in range(ctx.rng.randint(0, 3))] for _ in range(nq)]
            wm = WorkerManager()
            qs = [multiprocessing.Queue() for _ in range(nq)]
            for q, c in zip(qs, content):
                for m in c:
                    q.put(_msg(m))
                wm.result_queues_collection.add(q)
            time.sleep(0.03)  # feeder threads flush
            order = [qs.index(q) for q in wm.result_queues_collection]  # the set's real iteration order goes into the model
            coll0 = sorted(set(ctx.rng.sample(range(1, 7), ctx.rng.randint(0, 2))))
            wm.result_uuids_collection = {U(x) for x in coll0}
            raised = False
            try:
                wm.poll_result_queues()
            except Exception:  # noqa: BLE001 - since fix 4cba3bf a late DROP_COMPLETE is skipped; any exception here is a finding
                raised = True
            left = [[_unmsg(x) for x in _drain(q, 0)] for q in qs]
            for q in qs:
                q.close()
                q.join_thread()
            impl = {"queues": [left[i] for i in order], "coll": sorted(N(x) for x in wm.result_uuids_collection), "raised": raised}
            case = {"queues": [content[i] for i in order], "coll": coll0}
            ctx.case("life_queues", {"poll": case}, any(m[0] == "dc" for c in content for m in c), kind="poll", raised=raised)
            # oracle: a step result is never lost: it is either still queued or collected
            before = {m[1] for c in content for m in c if m[0] == "done"} | set(coll0)
            after = {m[1] for c in left for m in c if m[0] == "done"} | set(impl["coll"])
            if before != after:
                ctx.violation("life_queues", {"poll": case}, "poll_result_queues lost or invented a step result", sorted(after), sorted(before))
            if raised:
                ctx.violation("life_queues", {"poll": case}, "poll_result_queues raised on a queued message (a DROP_COMPLETE that arrived late kills the run)", "raised", "skipped")
            if any(len(l_) != max(0, len(c_) - 1) for l_, c_ in zip(left, content)):
                ctx.violation("life_queues", {"poll": case}, "poll_result_queues did not take exactly one message from every non-empty queue", left, content)
            reqs.append({"op": "C09.poll", **case})
            impls.append(impl)
            cases.append({"poll": case})
            kinds.append("poll")
        else:
            o = ctx.rng.randint(1, 2)
            content = [(["done", ctx.rng.randint(1, 6)] if ctx.rng.random() < 0.6 else ["dc", ctx.rng.randint(1, 2)]) for _ in range(ctx.rng.randint(0, 4))]
            wm = WorkerManager()
            q = multiprocessing.Queue()
            for m in content:
                q.put(_msg(m))
            time.sleep(0.03)
            has = ["dc", o] in content
            t0 = time.time()
            wm.wait_for_drop_completion(q, U(o), timeout=0.25 if has else 0.06)
            took = time.time() - t0
            found = has and took < 0.24
            left = [_unmsg(x) for x in _drain(q, len(content) - (1 if found else 0))]
            q.close()
            q.join_thread()
            case = {"o": o, "q": content}
            ctx.case("life_queues", {"wait": case}, has and len(content) > 1, kind="wait", found=found)
            # oracle: only the matching DROP_COMPLETE is consumed; every other message is still in the queue
            exp = list(content)
            if has:
                exp.remove(["dc", o])
            if sorted(map(str, left)) != sorted(map(str, exp)) or found != has:
                ctx.violation("life_queues", {"wait": case}, "wait_for_drop_completion consumed something other than the matching DROP_COMPLETE (or missed it)", {"left": left, "found": found}, {"left": exp, "found": has})
            reqs.append({"op": "C09.waitDrop", "o": o, "q": content, "sched": [[] for _ in range(len(content) + 2)]})
            impls.append({"q": left, "found": found})
            cases.append({"wait": case})
            kinds.append("wait")
    for case, kind, im, m in zip(cases, kinds, impls, ctx.driver(DRIVER).batch(reqs)):
        if kind == "poll":
            model = {"queues": m["queues"], "coll": sorted(m["coll"]), "raised": m["raised"]}
            if model != im:
                ctx.disagree("life_queues", case, im, model)
        else:
            ok = m["found"] == im["found"]
            if m["found"]:
                ok = ok and m["q"] == im["q"]  # the exact order after the rotation
            else:
                # timed out: the real loop rotated the queue an unknown number of times
                ok = ok and any(im["q"] == m["q"][i:] + m["q"][:i] for i in range(max(1, len(m["q"]))))
            if not ok:
                ctx.disagree("life_queues", case, im, m)


# ------------------------------------------------------------------------------------------------------------------
# end to end: SYNC and THREADING runs observed by harness-side wrappers; the orchestrator's own event sequence goes through Life.step


class Recorder:
    """Event log of one run.  Orchestrator actions (register / fgDone / otherDone / periodic / pop) are sequential (the loop is single
    threaded); `calc` (a Step.execute that returned) is appended by whichever thread ran the step, under the lock."""

    def __init__(self) -> None:
        self.lock = threading.RLock()
        self.ids: Dict[Any, int] = {}
        self.events: List[Dict[str, Any]] = []
        self.open: Optional[Dict[str, Any]] = None  # the orchestrator action during which drop_last_data calls are attributed
        self.stray_drops: List[Any] = []
        self.begin_checks: List[Dict[str, Any]] = []
        self.dropped_at: Dict[int, int] = {}  # object -> index of the last event that dropped it
        self.calc_after_drop: Set[int] = set()
        self.orch: Any = None  # the ExecutionOrchestrator of THIS run (session.runner is only set when the run returns)

    def rid(self, u: Any) -> int:
        with self.lock:
            if u not in self.ids:
                self.ids[u] = len(self.ids)
            return self.ids[u]

    def add(self, ev: Dict[str, Any]) -> Dict[str, Any]:
        with self.lock:
            self.events.append(ev)
        return ev


REC: List[Recorder] = []


def install_e2e_wrappers() -> Any:
    from mloda.core.abstract_plugins.compute_framework import ComputeFramework
    from mloda.core.runtime.run import ExecutionOrchestrator
    from mloda.core.runtime.compute_framework_executor import ComputeFrameworkExecutor
    from mloda.core.runtime.data_lifecycle_manager import DataLifecycleManager
    from mloda.core.core.step.feature_group_step import FeatureGroupStep
    from mloda.core.core.step.transform_frame_work_step import TransformFrameworkStep
    from mloda.core.core.step.join_step import JoinStep

    saved = [
        (ComputeFramework, "drop_last_data", ComputeFramework.drop_last_data),
        (ExecutionOrchestrator, "_process_step_result", ExecutionOrchestrator._process_step_result),
        (ExecutionOrchestrator, "_drop_data_for_finished_cfws", ExecutionOrchestrator._drop_data_for_finished_cfws),
        (ComputeFrameworkExecutor, "init_compute_framework", ComputeFrameworkExecutor.init_compute_framework),
        (DataLifecycleManager, "pop_result_data_collection", DataLifecycleManager.pop_result_data_collection),
        (FeatureGroupStep, "execute", FeatureGroupStep.execute),
        (TransformFrameworkStep, "execute", TransformFrameworkStep.execute),
        (JoinStep, "execute", JoinStep.execute),
    ]
    o_drop, o_psr, o_per, o_init, o_pop = (x[2] for x in saved[:5])

    def drop_last_data(self: Any, location: Optional[str] = None) -> None:
        r = REC[0] if REC else None
        had = self.data is not None
        key = r.rid(self.uuid) if (r is not None and isinstance(self.data, str) and location) else None
        o_drop(self, location)
        if r is not None:
            o = r.rid(self.uuid)
            with r.lock:
                if r.open is not None:
                    r.open["drops"].append([o, r.open["t"] == "periodic", key, had])
                else:
                    r.stray_drops.append([o, had])
                if had:
                    r.dropped_at[o] = len(r.events)
                    r.calc_after_drop.discard(o)

    def _process_step_result(self: Any, step: Any) -> Any:
        r = REC[0] if REC else None
        if r is None:
            return o_psr(self, step)
        ev: Dict[str, Any] = {"t": "fgDone" if isinstance(step, FeatureGroupStep) else "otherDone", "drops": [], "err": None}
        if isinstance(step, FeatureGroupStep):
            try:
                cfw = self.executor.get_cfw(step.compute_framework, step.features.any_uuid)
                ev["o"] = r.rid(cfw.uuid)
            except Exception:
                ev["o"] = r.rid(("unknown", step.uuid))
            ev["st"] = r.rid(step.uuid)
            ev["F"] = sorted(r.rid(f.uuid) for f in step.features.features)
            ev["req"] = bool(step.features.get_initial_requested_features())
        else:
            ev["ids"] = sorted(r.rid(u) for u in step.get_uuids())
        r.open = ev
        try:
            res = o_psr(self, step)
        except Exception as e:  # noqa: BLE001
            ev["err"] = classify(e)
            r.open = None
            r.add(ev)
            raise
        r.open = None
        if res:
            r.add(ev)
        return res

    def _drop_data_for_finished_cfws(self: Any, finished_ids: Any) -> None:
        r = REC[0] if REC else None
        if r is None:
            return o_per(self, finished_ids)
        r.orch = self
        ev: Dict[str, Any] = {"t": "periodic", "drops": [], "err": None}
        r.open = ev
        try:
            o_per(self, finished_ids)
        except Exception as e:  # noqa: BLE001
            ev["err"] = classify(e)
            r.open = None
            r.add(ev)
            raise
        r.open = None
        with r.lock:
            last = r.events[-1] if r.events else None
            if ev["drops"] or last is None or last["t"] != "periodic" or last["drops"]:
                r.events.append(ev)  # runs of periodic calls that dropped nothing are recorded once

    def init_compute_framework(self: Any, cf_class: Any, parallelization_mode: Any, children_if_root: Any, uuid: Any = None) -> Any:
        r = REC[0] if REC else None
        u = o_init(self, cf_class, parallelization_mode, children_if_root, uuid)
        if r is not None:
            r.add({"t": "register", "o": r.rid(u), "children": sorted(r.rid(c) for c in children_if_root), "cls": cf_class.__name__, "drops": [], "err": None})
        return u

    def pop_result_data_collection(self: Any) -> Any:
        r = REC[0] if REC else None
        for su, res in o_pop(self):
            if r is not None:
                r.add({"t": "pop", "st": r.rid(su), "drops": [], "err": None})
            yield su, res

    def make_exec(orig: Any, kind: str) -> Any:
        def execute(self: Any, cfw_register: Any, cfw: Any, *a: Any, **kw: Any) -> Any:
            r = REC[0] if REC else None
            if r is not None:
                from_cfw = kw.get("from_cfw", a[0] if a else None)
                inputs = []
                if kind == "fg" and len(self.required_uuids) > 0:
                    inputs.append(cfw)
                if kind in ("tfs", "join") and isinstance(from_cfw, ComputeFramework):
                    inputs.append(from_cfw)
                if kind == "join":
                    inputs.append(cfw)
                for x in inputs:
                    o = r.rid(x.uuid)
                    with r.lock:
                        r.begin_checks.append({"step": r.rid(self.uuid), "kind": kind, "obj": o, "has_data": x.data is not None,
                                               "dropped_before": o in r.dropped_at and o not in r.calc_after_drop})
            res = orig(self, cfw_register, cfw, *a, **kw)
            if r is not None:
                o = r.rid(cfw.uuid)
                with r.lock:
                    r.events.append({"t": "calc", "o": o, "drops": [], "err": None})
                    r.calc_after_drop.add(o)
            return res

        return execute

    ComputeFramework.drop_last_data = drop_last_data  # type: ignore[method-assign]
    ExecutionOrchestrator._process_step_result = _process_step_result  # type: ignore[method-assign]
    ExecutionOrchestrator._drop_data_for_finished_cfws = _drop_data_for_finished_cfws  # type: ignore[method-assign]
    ComputeFrameworkExecutor.init_compute_framework = init_compute_framework  # type: ignore[method-assign]
    DataLifecycleManager.pop_result_data_collection = pop_result_data_collection  # type: ignore[method-assign]
    FeatureGroupStep.execute = make_exec(FeatureGroupStep.execute, "fg")  # type: ignore[method-assign]
    TransformFrameworkStep.execute = make_exec(TransformFrameworkStep.execute, "tfs")  # type: ignore[method-assign]
    JoinStep.execute = make_exec(JoinStep.execute, "join")  # type: ignore[method-assign]
    return saved


def uninstall_e2e_wrappers(saved: Any) -> None:
    for cls, name, fn in saved:
        setattr(cls, name, fn)


def lean_event(ev: Dict[str, Any]) -> List[Any]:
    t = ev["t"]
    if t == "register":
        return ["register", ev["o"], ev["children"]]
    if t == "calc":
        return ["calc", ev["o"]]
    if t == "fgDone":
        return ["fgDone", ev["o"], ev["st"], ev["F"], ev["req"]]
    if t == "otherDone":
        return ["otherDone", ev["ids"]]
    return [t]


def _plan_can_complete(exp: Dict[str, Any]) -> bool:
    """independent scheduler simulation on the exported plan: start every step whose required uuids are all produced, until nothing changes"""
    steps = exp["steps"]
    done: set = set()
    finished: set = set()
    progress = True
    while progress:
        progress = False
        for i, st in enumerate(steps):
            if i not in done and set(st["req"]) <= finished:
                done.add(i)
                finished |= set(st["outs"])
                progress = True
    return len(done) == len(steps)


def e2e_suite(ctx: Ctx, n: int) -> None:
    from harness import schedlib as S

    S.install_step_observers()  # the shared step observers first (ours wrap them)
    saved = install_e2e_wrappers()
    reqs, impls, cases = [], [], []
    timeouts = 0
    t_suite = time.time()
    wall_budget = 30.0 if ctx.quick else 300.0  # the suite never takes longer than this, whatever the runs do
    try:
        for it in range(n + 1):
            if timeouts >= 2 or time.time() - t_suite > wall_budget:
                ctx.tag("life_e2e_stopped_early", "timeouts" if timeouts >= 2 else "wall_budget")
                break
            kind = ctx.rng.choice(["dag", "dag", "dagpd", "chain", "link", "joindag", "joindag"])
            try:
                if it == 0:
                    # the witness request of F-C09-life-join-right-only-dropped-early, every run
                    from harness import fgfactory as F

                    u = F.uniq("")
                    kind = "joindag"
                    spec = {"sources": [{"name": f"S{u}_0", "fw": "pa", "key": f"k{u}_0", "cols": {f"k{u}_0": [6, 2, 4, 5], f"v{u}_00": [9, 1, 9, 2], f"v{u}_01": [6, 2, 9, 9]}},
                                        {"name": f"S{u}_1", "fw": "pa", "key": f"k{u}_1", "cols": {f"k{u}_1": [6, 4, 5, 2], f"v{u}_10": [9, 6, 4, 3]}}],
                            "links": [{"type": "inner", "left": 0, "right": 1}],
                            "consumer": {"name": f"Z{u}", "fw": "pa", "features": {f"x{u}": {"parents": [f"v{u}_01", f"v{u}_10"], "expr": ["add", ["col", f"v{u}_01"], ["col", f"v{u}_10"]]},
                                                                                   f"y{u}_0": {"parents": [f"v{u}_10"], "expr": ["add", ["col", f"v{u}_10"], ["const", 3]]}}},
                            "tops": [{"name": f"T{u}_0", "fw": "pa", "features": {f"w{u}_0": {"parents": [f"y{u}_0"], "expr": ["add", ["col", f"y{u}_0"], ["const", 4]]}}}],
                            "request": [{"name": f"w{u}_0", "options": {}}, {"name": f"x{u}", "options": {}}], "joindag": True}  # fmt: skip
                    sess = S.prepare_link(spec)
                elif kind == "dag":
                    spec = S.gen_spec(ctx.rng, max_feats=ctx.rng.choice([3, 5, 8]), frameworks=("pa",), allow_options=ctx.rng.random() < 0.3)
                    sess = S.prepare(spec, S.build_classes(spec))
                elif kind == "dagpd":
                    spec = S.gen_spec(ctx.rng, max_feats=5, frameworks=(ctx.rng.choice(["pd", "py"]),), allow_options=False)
                    sess = S.prepare(spec, S.build_classes(spec))
                elif kind == "chain":
                    spec = S.gen_chain_spec(ctx.rng)
                    sess = S.prepare(spec, S.build_classes(spec))
                elif kind == "link":
                    spec = S.gen_link_spec(ctx.rng, frameworks=("pa", "pd"), nsrc=2, jointypes=("inner", "left", "outer"))
                    sess = S.prepare_link(spec)
                else:
                    spec = S.gen_join_dag_spec(ctx.rng)
                    sess = S.prepare_link(spec)
            except Exception:
                ctx.tag("life_e2e_rejected_at_prepare", kind)
                continue
            for mode in ("sync", "thread"):
                stream = ctx.rng.random() < 0.3
                rec = Recorder()
                REC[:] = [rec]
                try:
                    # every real run goes through schedlib's guarded helper thread with a watchdog (SYNC / THREADING runs of these
                    # sizes take milliseconds; a run that does not end within 15 s is reported, never waited for)
                    rr = S.run_session(sess, mode, stream=stream, timeout=15, attempts=1)
                finally:
                    REC[:] = []
                case = {"spec": spec, "mode": mode, "stream": stream, "kind": kind}
                runner = rec.orch
                evs = list(rec.events)
                # an exception that is not part of the model (e.g. the column selection of a result failing on a table that lost a column -
                # the THREADING lost update): the events before it are still replayed, the state at the raise is not compared
                cut = next((i for i, e in enumerate(evs) if e["err"] and e["err"].startswith("other:")), None)
                if cut is not None:
                    evs = evs[:cut]
                    ctx.tag("life_e2e_unmodelled_exception", mode)
                known = "join-consumer-right-only-feature-consumed-later" if (kind == "joindag" and S.jd_top_on_right_only(spec)) else None
                ndrops = sum(len(e["drops"]) for e in evs)
                ctx.case("life_e2e", case, ndrops > 0 and len(evs) >= 6, mode=mode, e2e_kind=kind, e2e_stream=stream, e2e_drops=min(ndrops, 3),
                         e2e_outcome="timeout" if rr.timed_out else ("raise" if rr.error else "return"))  # fmt: skip
                if rr.timed_out:
                    timeouts += 1
                    # a run that spins because the accepted plan has a wait-for cycle is C04's subject (known findings there: accepted plans
                    # that can never complete); it says nothing about leftovers. Only a spinning run of a plan that CAN complete is reported here.
                    if not _plan_can_complete(S.export_plan(sess)):
                        ctx.tag("life_e2e_spin_on_ill_ranked_plan", mode)
                        continue
                    ctx.violation("life_e2e", case, f"{mode} run did not end within 15 s", None, None)
                    if timeouts >= 2:
                        break
                    continue
                # ---- oracle (property text): nothing is dropped while a step that still needs it has not run ...
                for b in rec.begin_checks:
                    if not b["has_data"] and b["dropped_before"]:
                        ctx.violation("life_e2e", case, f"{b['kind']} step {b['step']} began on object {b['obj']} whose data had already been dropped (premature drop)", b, "data present", finding_class=known)
                if rec.stray_drops:
                    ctx.violation("life_e2e", case, "drop_last_data was called outside _process_step_result / _drop_data_for_finished_cfws", rec.stray_drops, [])
                # ... and a drop happens only when every uuid of children_if_root was reported by a finished step (SET inclusion)
                children = {e["o"]: set(e["children"]) for e in evs if e["t"] == "register"}
                reported: Dict[int, Set[int]] = {}
                for e in evs:
                    if e["t"] == "fgDone" and e["err"] is None:
                        reported.setdefault(e["o"], set()).update(e["F"])
                    for d in e["drops"]:
                        if not d[1] and not children.get(d[0], set()) <= reported.get(d[0], set()):
                            ctx.violation("life_e2e", case, f"object {d[0]} dropped although children {sorted(children.get(d[0], set()) - reported.get(d[0], set()))} were not reported", d, None)
                # ... and after a run that returned, an object all of whose children were reported holds no data
                state = None
                if cut is None and runner is not None and getattr(runner, "executor", None) is not None:
                    objs = []
                    finished_all: Set[int] = set()
                    for e in evs:
                        if e["t"] == "fgDone" and e["err"] is None:
                            finished_all |= set(e["F"])
                        if e["t"] == "otherDone":
                            finished_all |= set(e["ids"])
                    for u, c in runner.executor.cfw_collection.items():
                        o = rec.rid(u)
                        ch = {rec.rid(x) for x in c.children_if_root}
                        objs.append([o, {"tracker": sorted(rec.rid(x) for x in c.already_calculated_children_tracker), "table": c.data is not None and not isinstance(c.data, str),
                                         "key": None if not isinstance(c.data, str) else -1}])  # fmt: skip
                        if rr.error is None and ch <= reported.get(o, set()) and c.data is not None and o not in rec.calc_after_drop:
                            ctx.violation("life_e2e", case, f"object {o}: every child was reported by a finished step but its data was not dropped", sorted(ch), None)
                        if rr.error is None and c.data is not None and ch <= finished_all:
                            # every consumer is done, yet the object still holds its data: the reports went to another object (transform chains,
                            # join sources).  Not part of C09's text (in-process memory, released with the session) - recorded, not judged.
                            ctx.tag("life_e2e_retained_after_return", kind)
                    dlm = runner.data_lifecycle_manager
                    state = {"objs": objs, "track": [[rec.rid(k), sorted(rec.rid(x) for x in v)] for k, v in dlm.track_data_to_drop.items()],
                             "results": [rec.rid(k) for k in dlm.result_data_collection], "yielded": [e["st"] for e in evs if e["t"] == "pop"]}  # fmt: skip
                reqs.append({"op": "C09.lifeRun", "loc": False, "store": [], "evs": [lean_event(e) for e in evs]})
                impls.append({"outs": [{"err": e["err"], "drops": e["drops"]} for e in evs], "state": state})
                cases.append(case)
    finally:
        uninstall_e2e_wrappers(saved)
    for case, im, o in zip(cases, impls, ctx.driver(DRIVER).batch(reqs)):
        mouts = [{"err": x.get("err"), "drops": x.get("drops", [])} for x in o["outs"]]
        ms = o["state"]
        model_state = {"objs": [[k, {"tracker": sorted(d["tracker"]), "table": d["table"], "key": d["key"]}] for k, d in ms["objs"]],
                       "track": [[k, sorted(v)] for k, v in ms["track"]], "results": [k for k, _ in ms["results"]],
                       "yielded": [k for k, _ in ms["yielded"]]}  # fmt: skip  (a `pop` event carries the step uuid that was really yielded: LIFO order)
        bad = mouts != im["outs"] or (im["state"] is not None and model_state != im["state"])
        if bad:
            ctx.disagree("life_e2e", case, im, {"outs": mouts, "state": model_state})


def witness_suite(ctx: Ctx) -> None:
    """The closed negation witnesses that are not histories: replayed on the real classes."""
    import multiprocessing
    from mloda.core.runtime.worker_manager import WorkerManager
    from mloda.core.abstract_plugins.components.parallelization_modes import ParallelizationMode
    from mloda_plugins.compute_framework.base_implementations.pyarrow.table import PyArrowTable
    import pyarrow as pa

    # C09.life_count_test_unsound_witness: children {1, 2}, one report {1, 7}: the real (set based) test keeps the data
    cfw = PyArrowTable(ParallelizationMode.SYNC, frozenset({U(1), U(2)}), U(99))
    cfw.data = pa.table({"x": [1]})
    r = cfw.add_already_calculated_children_and_drop_if_possible({U(1), U(7)}, None)
    m = ctx.driver(DRIVER).batch([{"op": "C09.countBased", "children": [1, 2], "tracker": [], "report": [1, 7]}])[0]
    ctx.case("life_witness", {"witness": "C09.life_count_test_unsound_witness"}, True)
    impl = "dropped" if r is True else ("no" if r is False else "pending")
    if impl != m["set"] or m["count"] != "dropped" or (cfw.data is None) != (impl == "dropped"):
        ctx.disagree("life_witness", {"witness": "C09.life_count_test_unsound_witness"}, {"real": impl, "data_kept": cfw.data is not None}, m)
    if r is True:
        ctx.violation("life_witness", {"children": [1, 2], "report": [1, 7]}, "data dropped although child 2 was never reported (count based test?)", impl, "no")

    # C09.life_wait_reorders_witness: [result 1, DROP_COMPLETE 5, result 2] -> found; left [result 2, result 1]
    wm = WorkerManager()
    q = multiprocessing.Queue()
    for msg in (["done", 1], ["dc", 5], ["done", 2]):
        q.put(_msg(msg))
    time.sleep(0.03)
    t0 = time.time()
    wm.wait_for_drop_completion(q, U(5), timeout=0.5)
    found = time.time() - t0 < 0.45
    left = [_unmsg(x) for x in _drain(q, 2)]
    q.close()
    q.join_thread()
    ctx.case("life_witness", {"witness": "C09.life_wait_reorders_witness"}, True)
    if not found or left != [["done", 2], ["done", 1]]:
        ctx.disagree("life_witness", {"witness": "C09.life_wait_reorders_witness"}, {"found": found, "left": left}, {"found": True, "left": [["done", 2], ["done", 1]]})

    # C09.life_late_drop_complete_poisons_poll_witness: the wait times out on an empty queue; the DROP_COMPLETE arrives later.  Before fix
    # 4cba3bf the next poll raised on it (AttributeError from UUID(tuple): observed on the real WorkerManager by this very replay);
    # the repaired poll skips it, and the step result behind it is collected by the poll after that
    wm = WorkerManager()
    q = multiprocessing.Queue()
    wm.result_queues_collection.add(q)
    wm.wait_for_drop_completion(q, U(5), timeout=0.03)
    q.put(("DROP_COMPLETE", U(5)))
    q.put(str(U(1)))
    time.sleep(0.03)
    raised = None
    coll_after_first: Any = None
    try:
        wm.poll_result_queues()
        coll_after_first = sorted(N(x) for x in wm.result_uuids_collection)
        wm.poll_result_queues()
    except Exception as e:  # noqa: BLE001
        raised = type(e).__name__
    left = [_unmsg(x) for x in _drain(q, 0)]
    q.close()
    q.join_thread()
    case = {"witness": "C09.life_late_drop_complete_poisons_poll_witness"}
    ctx.case("life_witness", case, True, poll_exception=raised)
    impl_w = {"raised": raised, "coll_after_first_poll": coll_after_first, "coll": sorted(N(x) for x in wm.result_uuids_collection), "left": left}
    if raised is not None:
        ctx.violation("life_witness", case, f"a DROP_COMPLETE that arrived after wait_for_drop_completion timed out makes the next poll_result_queues raise {raised}: the run dies although every step succeeded", impl_w, "skipped")
    elif impl_w != {"raised": None, "coll_after_first_poll": [], "coll": [1], "left": []}:
        ctx.disagree("life_witness", case, impl_w, {"raised": None, "coll_after_first_poll": [], "coll": [1], "left": []})


def run(ctx: Ctx) -> None:
    ctx.extra["rule"] = (ctx.extra.get("rule", "") + " | life: history = seeded event histories (register / set_data / uploads / _process_step_result + _mark_step_as_finished / "
                         "_drop_data_for_finished_cfws / track_flyway_datasets / get_results / pop / _drop_remaining_flight_data, worker and in-process branch, unknown objects, duplicate uuids) on a real "
                         "ExecutionOrchestrator + DataLifecycleManager + executor + CfwManager with real PyArrowTable / PandasDataFrame objects vs Life.step, event by event (exception class, drop_last_data calls) and the "
                         "whole final state; worker = the real worker() on plain queues with scripted steps vs Life.wloop; queues = real WorkerManager on real multiprocessing queues vs Life.poll / Life.waitDrop; "
                         "e2e = generated requests (DAGs on 3 frameworks, transform chains, joins, joins inside DAGs + the witness request of the known finding) in SYNC and THREADING, batch and stream: the "
                         "orchestrator's observed event sequence is replayed through Life.step and the oracle checks premature / late drops on the real objects; non-trivial = a drop happened or an exception was compared")  # fmt: skip
    witness_suite(ctx)
    history_suite(ctx, ctx.budget(500, 12000))
    worker_suite(ctx, ctx.budget(250, 6000))
    queues_suite(ctx, ctx.budget(40, 400))
    e2e_suite(ctx, ctx.budget(40, 1000))


def search(ctx: Ctx, broken: List[str]) -> None:
    run(ctx)


def replay(ctx: Ctx, body: Dict[str, Any]) -> None:
    """Replays one recorded case of this module's suites (a history on the real objects), otherwise the whole run."""
    case = body.get("case") or {}
    if body.get("suite") in ("life_history", "life_witness") and isinstance(case, dict) and "evs" in case:
        from mloda.core.abstract_plugins.compute_framework import ComputeFramework

        world_ref: List[Any] = []
        orig = install_drop_recorder(world_ref)
        try:
            with FakeFlight() as fake:
                w = RealWorld(bool(case.get("loc")), list(case.get("store", [])), fake, {int(k): v for k, v in (case.get("classes") or {}).items()})
                world_ref[:] = [w]
                outs = [w.apply(ev) for ev in case["evs"]]
                snap = w.snapshot()
        finally:
            ComputeFramework.drop_last_data = orig  # type: ignore[method-assign]
        ctx.case("life_history", case, True)
        oracle_history(ctx, case, case["evs"], outs, snap)
        o = ctx.driver(DRIVER).batch([{"op": "C09.lifeRun", "loc": bool(case.get("loc")), "store": list(case.get("store", [])), "evs": [strip(e) for e in case["evs"]]}])[0]
        model = {"outs": [{"err": x.get("err"), "drops": x.get("drops", []), **({"values": x["values"]} if "values" in x else {})} for x in o["outs"]], "state": canon_model_state(o["state"])}
        impl = {"outs": [{"err": x["err"], "drops": x["drops"], **({"values": x["values"]} if "values" in x else {})} for x in outs], "state": snap}
        if model != impl:
            ctx.disagree("life_history", case, impl, model)
        return
    run(ctx)
