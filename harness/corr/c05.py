"""C05 - a consumer of several sources sees exactly the join its Links describe.

End to end through `mloda.prepare(...)` + `session.run(...)`: generated root feature groups (one per source table, each on
one compute framework, with `index_columns`), one consumer group that depends on features of all sources, one `Link` per
edge of the link tree.  The rows handed to the consumer's `calculate_feature` are captured by a `before_calc` hook that
writes them to the event-log file.  They are compared with (a) the nested-loop oracle of harness/corr/c12.py applied to the
source tables as the Links say, (b) for one-link requests the Lean model `JoinPlan.plan` (vs the exported execution plan)
and `JoinPlan.consumerTable` over the engine models of C12 (exact rows).
"""
from __future__ import annotations

import json
import os
import tempfile
from collections import Counter
from typing import Any, Dict, List, Optional, Tuple

from harness.core import Ctx
from harness import fgfactory as F
from harness.corr import c12 as M

ASSUMPTIONS = [
    "merge engines: the models and assumptions of C12 (PyDictMerge proved; PandasSem / ArrowSem assumed, differential-tested there and here)",
    "moving a table between compute frameworks preserves its rows, column names and nulls (C14); the model uses the identity",
    "source groups are root groups on exactly one framework returning their whole table (key columns included, keys are not declared as features); "
    "the consumer requests every non-key feature column of every source",
    "rejections that are not counted as violations (a refusal, not a wrong table): RIGHT link between two groups on the same framework; "
    "no framework of the consumer is the framework of a linked source",
    "when a table is moved between frameworks before the merge its key columns keep an integer type: pandas sources then use the nullable Int64 dtype and no "
    "column is null in every row (otherwise pandas float / Arrow null-typed keys make PyArrow's join raise - type inference of the move, C14)",
    "requests with three sources, and requests with two consumers sharing a source, are tied by testing only (no Lean model of n-way planning)",
]

FWS = ("pa", "pd", "py")
FWID = {"pa": 0, "pd": 1, "py": 2}
FWNAME = {"PyArrowTable": "pa", "PandasDataFrame": "pd", "PythonDictFramework": "py"}
KIND_OF_TYPE = {"Table": "pa", "DataFrame": "pd", "list": "py"}

# ----------------------------------------------------------------------------------------------------------------
# building and running one request


class Source:
    def __init__(self, name: str, fw: str, keys: List[str], cols: List[str], data: List[List[Any]], feats: List[str], pdmode: str = "float"):
        self.name, self.fw, self.keys, self.cols, self.data, self.feats, self.pdmode = name, fw, keys, cols, data, feats, pdmode
        self.cls: Any = None

    def rows(self) -> List[Dict[str, Any]]:
        return M.rows_of(self.cols, self.data)


def make_source_class(s: Source) -> Any:
    from mloda.core.abstract_plugins.components.index.index import Index

    def calc(cls: Any, data: Any, features: Any) -> Any:
        return M.build(s.fw, s.cols, s.data, s.pdmode)

    s.cls = F.make_group(
        F.uniq(f"S{s.name}_"), root_data={c: [0] for c in s.feats}, frameworks={F.FW_SHORT[s.fw]}, index_columns=[tuple(s.keys)] + [(c,) for c in s.cols if c == "j" and "j" not in s.keys],
        extra={"calculate_feature": classmethod(calc)},
    )
    return s.cls


def make_consumer_class(sources: List[Source], cfws: Optional[List[str]], tag: str, fname: str = "z") -> Any:
    from mloda.core.abstract_plugins.components.feature import Feature
    from mloda.core.abstract_plugins.components.index.index import Index

    parents = [(f, tuple(s.keys)) for s in sources for f in s.feats]

    def input_features(self: Any, options: Any, feature_name: Any) -> Any:
        return {Feature(f, index=Index(k)) for f, k in parents}

    def before(cls: Any, data: Any, features: Any) -> None:
        t = M.normalize_table(data)
        F.log_event(ev="rows", tag=tag, kind=type(data).__name__, cols=t["cols"], rows=[[[c, v] for c, v in r] for r in t["rows"]])

    def calc(cls: Any, data: Any, features: Any) -> Any:
        # record what arrives, then return the table with the consumer's own column appended (done natively: joined tables
        # may carry the same column name twice)
        before(cls, data, features)
        import pyarrow as pa

        if isinstance(data, pa.Table):
            return data.append_column(fname, pa.array([1] * data.num_rows, pa.int64()))
        if isinstance(data, list):
            return [{**r, fname: 1} for r in data] if data else [{fname: 1}]
        out = data.copy()
        out[fname] = 1
        return out

    return F.make_group(
        F.uniq("Z_"), derived={fname: {"parents": [], "expr": ["const", 1]}}, frameworks={F.FW_SHORT[x] for x in cfws} if cfws else None,
        extra={"input_features": input_features, "calculate_feature": classmethod(calc)},
    )  # fmt: skip


def classify_error(e: BaseException) -> str:
    s = (repr(e) + str(e)).replace("\\n", " ")
    if "No new compute frameworks have been found" in s:
        return "reject:noFramework"
    if "Right joins are not supported for equal or polymorphic" in s:
        return "reject:rightSameFw"
    if "union are not yet implemented" in s:
        return "merge:union-unimplemented"
    if "Schemas of the tables do not match" in s:
        return "merge:append-schema"
    if "mloda_right_index already exists" in s:
        return "merge:right-index-exists"
    if "Data is empty or not in expected format" in s or "Data cannot be empty" in s:
        return "fw:pydict-empty-table"
    if "KeyError" in s or "No match or multiple matches for key field" in s:
        return "merge:missing-key-column"
    return "error:" + type(e).__name__ + ":" + s[-160:]


def export_plan(session: Any, sources: List[Source], consumer: Any, links: List[Any]) -> Dict[str, Any]:
    """the decisions of the planner that JoinPlan.plan models, read off the prepared execution plan"""
    from mloda.core.core.step.feature_group_step import FeatureGroupStep
    from mloda.core.core.step.join_step import JoinStep
    from mloda.core.core.step.transform_frame_work_step import TransformFrameworkStep

    steps = list(session.engine.execution_planner.execution_plan)
    by_uuid: Dict[Any, str] = {}
    out: Dict[str, Any] = {"joins": []}
    for st in steps:
        if isinstance(st, FeatureGroupStep):
            for s in sources:
                if st.feature_group is s.cls:
                    for u in st.features.get_all_feature_ids():
                        by_uuid[u] = s.name
            if st.feature_group is consumer:
                out["consumerFw"] = FWNAME.get(st.compute_framework.get_class_name(), st.compute_framework.get_class_name())
    tfs_links = {st.link_id for st in steps if isinstance(st, TransformFrameworkStep) and st.link_id is not None}
    for st in steps:
        if isinstance(st, JoinStep):
            out["joins"].append({
                "execFw": FWNAME.get(st.left_framework.get_class_name(), "?"),
                "first": sorted({by_uuid.get(u, "?") for u in st.left_framework_uuids}),
                "second": sorted({by_uuid.get(u, "?") for u in st.right_framework_uuids}),
                "transforms": st.link.uuid in tfs_links,
                "t": st.link.jointype.name,
            })  # fmt: skip
    return out


def run_request(sources: List[Source], links_spec: List[Tuple[Any, ...]], cfws: Optional[List[str]], avail: List[str], mode: str,
                consumers: Optional[List[Tuple[List[int], Optional[List[str]]]]] = None) -> Dict[str, Any]:
    """links_spec: [(jointype name, index of left source, index of right source[, left keys, right keys])].
    consumers: [(indices of the sources it depends on, its admissible frameworks)]; default: one consumer of all sources.
    -> {"plan":…, "got": rows of the (first) consumer | None, "gots": [rows per consumer], "err": kind | None}"""
    from mloda.core.abstract_plugins.components.feature import Feature
    from mloda.core.abstract_plugins.components.index.index import Index
    from mloda.core.abstract_plugins.components.link import JoinSpec, JoinType, Link
    from mloda.core.abstract_plugins.components.parallelization_modes import ParallelizationMode
    from mloda.user import mloda

    for s in sources:
        make_source_class(s)
    if consumers is None:
        consumers = [(list(range(len(sources))), cfws)]
    tags = [F.uniq("run") for _ in consumers]
    ccls = [make_consumer_class([sources[i] for i in idx], cf, tags[n], f"z{n}" if len(consumers) > 1 else "z") for n, (idx, cf) in enumerate(consumers)]
    consumer = ccls[0]
    links = set()
    for spec in links_spec:
        t, i, j = spec[0], spec[1], spec[2]
        lkeys = spec[3] if len(spec) > 3 else sources[i].keys
        rkeys = spec[4] if len(spec) > 4 else sources[j].keys
        links.add(Link(JoinType[t], JoinSpec(sources[i].cls, Index(tuple(lkeys))), JoinSpec(sources[j].cls, Index(tuple(rkeys)))))
    res: Dict[str, Any] = {"plan": None, "got": None, "gots": None, "err": None}
    log = os.environ[F.LOG_ENV]
    request = [Feature(f"z{n}") for n in range(len(consumers))] if len(consumers) > 1 else [Feature("z")]
    try:
        session = mloda.prepare(request, compute_frameworks={F.FW_SHORT[x] for x in avail}, links=links, plugin_collector=F.collector(set(ccls) | {s.cls for s in sources}))
    except BaseException as e:  # noqa: BLE001
        res["err"] = classify_error(e)
        return res
    try:
        res["plan"] = export_plan(session, sources, consumer, list(links))
    except Exception as e:  # noqa: BLE001
        res["plan"] = {"export-error": repr(e)[:200]}
    try:
        open(log, "w").close()
        session.run(parallelization_modes={ParallelizationMode.THREADING if mode == "thread" else ParallelizationMode.SYNC})
    except BaseException as e:  # noqa: BLE001
        res["err"] = classify_error(e)
        return res
    evs: Dict[str, List[Any]] = {t: [] for t in tags}
    with open(log) as fh:
        for line in fh:
            try:
                ev = json.loads(line)
            except Exception:
                continue
            if ev.get("ev") == "rows" and ev.get("tag") in evs:
                evs[ev["tag"]].append(ev)
    gots = []
    for t in tags:
        if len(evs[t]) != 1:
            res["err"] = f"error:consumer-called-{len(evs[t])}-times"
            return res
        ev = evs[t][0]
        gots.append({"kind": KIND_OF_TYPE.get(ev["kind"], ev["kind"]), "cols": ev["cols"], "rows": [[(c, v) for c, v in r] for r in ev["rows"]]})
    res["gots"] = gots
    res["got"] = gots[0]
    return res


# ----------------------------------------------------------------------------------------------------------------
# one-link requests: case = {"t","keycfg","lidx","ridx","sl","sr","TL","TR","lf","rf","cfws": [..]|None,"avail":[..],"mode","pdmode","featsL","featsR","swapnames"}


def two_sources(case: Dict[str, Any]) -> List[Source]:
    a = Source("L", case["lf"], case["lidx"], case["sl"], case["TL"], case["featsL"], case.get("pdmode", "float"))
    b = Source("R", case["rf"], case["ridx"], case["sr"], case["TR"], case["featsR"], case.get("pdmode", "float"))
    return [a, b]


def eff_cfws(case: Dict[str, Any]) -> List[str]:
    return [x for x in (case["cfws"] if case["cfws"] else case["avail"]) if x in case["avail"]]


def planner_class(case: Dict[str, Any]) -> Tuple[Optional[str], bool]:
    """narrow input classes of the planner-level findings (+ whether the merge gets the tables in exchanged roles)"""
    t, lf, rf = case["t"], case["lf"], case["rf"]
    c = eff_cfws(case)
    inverted = lf != rf and lf not in c and rf in c
    if t in ("APPEND", "UNION"):
        return ("append-union-inverted-link" if inverted else None), False
    if t == "RIGHT":
        if lf != rf and (lf in c or rf in c):
            return "right-join-across-frameworks", True
        return None, False
    if inverted:
        if case["lidx"] != case["ridx"]:
            return "inverted-link-different-key-names", True
        if t == "LEFT":
            return "left-join-inverted-link", True
        return None, True  # INNER / OUTER with equal key names: exchanged sides are harmless
    return None, False


def check_two(ctx: Ctx, suite: str, cases: List[Dict[str, Any]]) -> None:
    reqs, pend = [], []
    for case in cases:
        srcs = two_sources(case)
        res = run_request(srcs, [(case["t"], 0, 1)], case["cfws"], case["avail"], case.get("mode", "sync"))
        f = M.features({"t": case["t"], "lk": case["lidx"], "rk": case["ridx"], "ls": case["sl"], "rs": case["sr"], "L": case["TL"], "R": case["TR"]})
        nontriv = len(case["TL"]) > 0 and len(case["TR"]) > 0 and (f["matchpairs"] > 0 or case["t"] in ("APPEND", "UNION"))
        ctx.case(suite, case, nontriv, jointype=case["t"], keycfg=case["keycfg"], fws=f"{case['lf']}-{case['rf']}", consumer="+".join(case["cfws"]) if case["cfws"] else "any",
                 mode=case.get("mode", "sync"), dup=f["dup"], nullkey=f["nullkey"], outcome=(res["err"] or "rows").split(":")[0])  # fmt: skip
        c = eff_cfws(case)
        reqs.append({"op": "C05.e2e", "t": case["t"], "lidx": case["lidx"], "ridx": case["ridx"], "lf": FWID[case["lf"]], "rf": FWID[case["rf"]], "cfws": [FWID[x] for x in c],
                     "sl": case["sl"], "sr": case["sr"],
                     "TL": [[[cc, v] for cc, v in zip(case["sl"], r)] for r in case["TL"]], "TR": [[[cc, v] for cc, v in zip(case["sr"], r)] for r in case["TR"]]})  # fmt: skip
        pend.append((case, res))
    outs = ctx.lean.batch(reqs)
    for (case, res), o in zip(pend, outs):
        inv = {v: k for k, v in FWID.items()}
        # ---------------- model vs implementation
        if "reject" in o:
            model: Dict[str, Any] = {"err": "reject:" + o["reject"]}
        elif "mergeError" in o:
            model = {"err": "fw:pydict-empty-table" if "Data is empty" in o["mergeError"] else "merge:" + M._arrow_err_kind(o["mergeError"])}
        else:
            model = {"rows": M.exact_bag(M.lean_rows(o["rows"]))}
        impl: Dict[str, Any] = {"err": res["err"]} if res["err"] else {"rows": M.exact_bag(res["got"]["rows"])}
        agrees = impl == model
        if not agrees:
            ctx.disagree(suite + "/e2e-model", case, impl, model)
        if "plan" in o and isinstance(res.get("plan"), dict) and res["plan"].get("joins") is not None:
            mp = o["plan"]
            ep = res["plan"]
            side = {"left": "L", "right": "R"}
            j = ep["joins"][0] if len(ep["joins"]) == 1 else None
            implp = {"consumerFw": ep.get("consumerFw"), "execFw": j and j["execFw"], "first": j and j["first"], "transforms": j and j["transforms"]}
            modelp = {"consumerFw": inv[mp["consumerFw"]], "execFw": inv[mp["execFw"]], "first": [side[mp["first"]]], "transforms": mp["transforms"]}
            ctx.case(suite + "/plan", {k: case[k] for k in ("t", "lf", "rf", "cfws", "avail", "lidx", "ridx")}, True)
            if implp != modelp:
                ctx.disagree(suite + "/plan", case, implp, modelp)
        # ---------------- oracle on what the consumer received
        what = None
        shown: Any = res["err"]
        exp: Dict[str, Any] = {}
        c = eff_cfws(case)
        if res["err"]:
            allowed = (res["err"] == "reject:rightSameFw" and case["t"] == "RIGHT" and case["lf"] == case["rf"]) or (
                res["err"] == "reject:noFramework" and case["lf"] not in c and case["rf"] not in c
            )
            reject_ok = case["t"] in ("APPEND", "UNION") and set(case["sl"]) != set(case["sr"]) and res["err"] == "merge:append-schema"
            if not (allowed or reject_ok):
                what = f"the request fails with {res['err']}"
        else:
            got = res["got"]
            kind = got["kind"]
            sl_o = M.observable_schema(kind, case["sl"], case["TL"])
            sr_o = M.observable_schema(kind, case["sr"], case["TR"])
            exp = M.oracle(case["t"], case["lidx"], case["ridx"], sl_o, sr_o, M.rows_of(case["sl"], case["TL"]), M.rows_of(case["sr"], case["TR"]))
            ov = [x for x in sl_o if x in sr_o and x not in M.coalesced(case["lidx"], case["ridx"])] if case["t"] in M.JOINS4 else []
            # an exchanged merge puts the link's RIGHT table first: the engine's own disambiguation then names the copies the other way round
            schema, bag = M.tag_rows(kind, ov, got["cols"], got["rows"])
            shown = {"kind": kind, "cols": got["cols"], "rows": M.exact_bag(got["rows"])}
            if planner_class(case)[1] and ov:
                flip = {"L": "R", "R": "L", "": ""}
                bag = Counter({tuple(sorted((cc, flip.get(s, s), v) for cc, s, v in r)): n for r, n in bag.items()})
                schema = {(cc, flip.get(s, s)) for cc, s in schema}
            if kind not in c:
                what = f"the consumer is executed on {kind}, its compute_framework_rule allows {c}"
            elif bag != exp["rows"]:
                missing = list((exp["rows"] - bag).elements())[:3]
                extra = list((bag - exp["rows"]).elements())[:3]
                what = f"the consumer received rows that are not the {case['t']} join of the link: missing {missing} unexpected {extra}"
            elif kind in ("pd", "pa") and schema != exp["schema"]:
                what = f"the consumer received columns {sorted(schema)} expected {sorted(exp['schema'])}"
        if what is not None:
            cls = None
            if agrees:
                pc, swapped = planner_class(case)
                cls = pc
                if res["err"] == "fw:pydict-empty-table" and "py" in [case["lf"], case["rf"]] + c:
                    cls = "pydict-framework-empty-table"
                if cls is None:
                    # the planner did its job; is it one of the merge-engine deviations recorded for C12 on the call actually made?
                    eng = case["rf"] if swapped else (case["lf"] if (case["lf"] in c or case["t"] in ("APPEND", "UNION")) else case["rf"])
                    eff = {"t": case["t"], "lk": case["lidx"], "rk": case["ridx"],
                           "ls": case["sr"] if swapped else case["sl"], "rs": case["sl"] if swapped else case["sr"],
                           "L": case["TR"] if swapped else case["TL"], "R": case["TL"] if swapped else case["TR"]}  # fmt: skip
                    ecl = M.finding_classes(eng, eff)
                    known = {f.get("input_class") for f in ctx.findings}
                    for e in ecl:
                        if "merge-engine/" + e in known:
                            cls = "merge-engine/" + e
                            break
                    if cls is None and ecl:
                        cls = "merge-engine/" + ecl[0]
            ctx.violation(suite, case, what, shown, {"rows": sorted(exp["rows"].elements()) if exp else None}, finding_class=cls)


# ----------------------------------------------------------------------------------------------------------------
# generators


def gen_two(rng: Any, t: Optional[str] = None) -> Dict[str, Any]:
    t = t or rng.choice(M.ALL6)
    cfg = rng.choices(list(M.KEYCFGS), [5, 2, 2, 1, 1, 2, 2, 1])[0]
    lk, rk = M.KEYCFGS[cfg]
    lf, rf = rng.choice(FWS), rng.choice(FWS)
    if rng.random() < 0.35:
        rf = lf
    featsL = rng.choice([["a"], ["a"], ["a", "a2"]])
    featsR = ["b"]
    extra = ["x"] if rng.random() < 0.1 else []
    if t in ("APPEND", "UNION"):
        cfg = rng.choice(["1same", "2same"])
        lk, rk = M.KEYCFGS[cfg]
        featsL = ["a"]
        if rng.random() < 0.7:
            sl = sr = list(lk) + ["a", "b"]
        else:
            sl, sr = list(lk) + ["a"], list(rk) + ["b"]
        kvals, kw, nvals, nw = [1, 2, None], [4, 4, 1], [7, 8, None], [4, 4, 1]
    else:
        sl, sr = list(lk) + featsL + extra, list(rk) + featsR + extra
        kvals, kw = [1, 2, 3, None], rng.choice([[4, 4, 2, 1], [3, 3, 3, 0], [5, 2, 1, 2]])
        nvals, nw = [5, 6, 7, 8, 9, None], [3, 3, 3, 3, 3, 1]

    def table(cols: List[str], ks: List[str]) -> List[List[Any]]:
        n = rng.choice([0, 1, 2, 2, 3, 3])
        return [[rng.choices(kvals, kw)[0] if c in ks else rng.choices(nvals, nw)[0] for c in cols] for _ in range(n)]

    TL, TR = table(sl, list(lk)), table(sr, list(rk))
    pdmode = rng.choice(["float", "Int64"])
    if lf != rf:
        # a table is moved between frameworks before the merge. Type inference of that move is C14's subject, so keep the key
        # columns typed: nullable-integer pandas sources, and no key column that is null in every row
        pdmode = "Int64"
        for cols, tb in ((sl, TL), (sr, TR)):
            for i in range(len(cols)):
                if tb and all(row[i] is None for row in tb):
                    tb[0][i] = 1
    r = rng.random()
    if r < 0.35:
        cfws: Optional[List[str]] = None
    elif r < 0.8:
        cfws = [rng.choice([lf, rf])]
    else:
        cfws = sorted(rng.sample(FWS, rng.choice([1, 2])))
    avail = sorted({lf, rf} | set(cfws or []) | ({rng.choice(FWS)} if rng.random() < 0.3 else set()))
    return {"t": t, "keycfg": cfg, "lidx": list(lk), "ridx": list(rk), "sl": sl, "sr": sr, "TL": TL, "TR": TR, "lf": lf, "rf": rf,
            "cfws": cfws, "avail": avail, "mode": "thread" if rng.random() < 0.12 else "sync", "pdmode": pdmode, "featsL": featsL, "featsR": featsR}  # fmt: skip


def witness_two() -> List[Dict[str, Any]]:
    """the design-time observations O17 (i), (ii) and their neighbours: A = {k: 1,2,3}, B = {k: 2,3,4}"""
    out = []
    base = {"keycfg": "1same", "lidx": ["k"], "ridx": ["k"], "sl": ["k", "a"], "sr": ["k", "b"], "TL": [[1, 10], [2, 20], [3, 30]], "TR": [[2, 5], [3, 6], [4, 7]],
            "mode": "sync", "pdmode": "float", "featsL": ["a"], "featsR": ["b"]}  # fmt: skip
    for t in M.JOINS4:
        for lf, rf in (("pa", "pd"), ("pd", "pa"), ("pa", "pa"), ("pd", "pd"), ("py", "py"), ("py", "pd")):
            for cf in ([lf], [rf], None):
                if lf == rf and cf == [rf]:
                    continue
                out.append({**base, "t": t, "lf": lf, "rf": rf, "cfws": cf, "avail": sorted({lf, rf})})
    d = {**base, "keycfg": "1diff", "lidx": ["lk"], "ridx": ["rk"], "sl": ["lk", "a"], "sr": ["rk", "b"]}
    for t in ("LEFT", "INNER", "RIGHT"):
        for cf in (["pa"], ["pd"]):
            out.append({**d, "t": t, "lf": "pa", "rf": "pd", "cfws": cf, "avail": ["pa", "pd"]})
    # two-column keys named in a different relative order on each side / the same names paired crosswise
    for cfg, lk, rk in (("2rev", ["p", "q"], ["s", "r"]), ("2swap", ["k", "k2"], ["k2", "k"])):
        m = {**base, "keycfg": cfg, "lidx": lk, "ridx": rk, "sl": lk + ["a"], "sr": rk + ["b"], "TL": [[1, 2, 10], [2, 1, 11], [2, 2, 12]], "TR": [[1, 2, 20], [2, 1, 21], [3, 3, 22]]}
        for t in ("INNER", "LEFT", "OUTER"):
            for fw in ("pd", "pa", "py"):
                out.append({**m, "t": t, "lf": fw, "rf": fw, "cfws": [fw], "avail": [fw]})
            out.append({**m, "t": t, "lf": "pd", "rf": "pa", "cfws": ["pd"], "avail": ["pa", "pd"], "pdmode": "Int64"})
    au = {**base, "sl": ["k", "a", "b"], "sr": ["k", "a", "b"], "TL": [[1, 7, 8], [2, 7, 8]], "TR": [[2, 7, 8], [3, 7, 7]]}
    for t in ("APPEND", "UNION"):
        for lf, rf, cf in (("pd", "pd", ["pd"]), ("py", "py", ["py"]), ("pa", "pa", ["pa"]), ("pd", "pa", ["pd"]), ("pd", "pa", ["pa"]), ("pa", "pd", ["pd"])):
            out.append({**au, "t": t, "lf": lf, "rf": rf, "cfws": cf, "avail": sorted({lf, rf})})
    out.append({**base, "t": "INNER", "lf": "pa", "rf": "pd", "cfws": ["py"], "avail": ["pa", "pd", "py"]})
    return out


# ----------------------------------------------------------------------------------------------------------------
# three sources, two links (link trees): tied by the oracle only
# case = {"shape": "chain"|"star"|"star2", "t": "INNER"|"LEFT", "fws": [fa, fb, fc], "cfws": [...]|None, "tables": [TA, TB, TC], "mode"}
#   chain: A.k-B.k, B.k-C.k      star: A.k-B.k, A.k-C.k      star2: A(k, j): A.k-B.k, A.j-C.j


def three_layout(case: Dict[str, Any]) -> Tuple[List[Source], List[Tuple[Any, ...]]]:
    fa, fb, fc = case["fws"]
    ta, tb, tc = case["tables"]
    if case["shape"] == "star2":
        A = Source("A", fa, ["k"], ["k", "j", "a"], ta, ["a"], "Int64")
        C = Source("C", fc, ["j"], ["j", "c"], tc, ["c"], "Int64")
    else:
        A = Source("A", fa, ["k"], ["k", "a"], ta, ["a"], "Int64")
        C = Source("C", fc, ["k"], ["k", "c"], tc, ["c"], "Int64")
    B = Source("B", fb, ["k"], ["k", "b"], tb, ["b"], "Int64")
    if case["shape"] == "chain":
        links: List[Tuple[Any, ...]] = [(case["t"], 0, 1), (case["t"], 1, 2)]
    elif case["shape"] == "star":
        links = [(case["t"], 0, 1), (case["t"], 0, 2)]
    else:
        links = [(case["t"], 0, 1, ["k"], ["k"]), (case["t"], 0, 2, ["j"], ["j"])]
    return [A, B, C], links


def oracle_three(case: Dict[str, Any]) -> Counter:
    """nested loops over the three tables, straight from the link tree (inner: every link's keys equal and non-null;
    left star: every row of A, with each partner table independently matched or null-padded)"""
    (A, B, C), _ = three_layout(case)
    ckey = "j" if case["shape"] == "star2" else "k"
    rows: List[Dict[Tuple[str, str], Any]] = []

    def eq(x: Any, y: Any) -> bool:
        return x is not None and x == y

    for a in A.rows():
        bs = [b for b in B.rows() if eq(a["k"], b["k"])]
        if case["shape"] == "chain":
            # B.k = C.k ; for inner joins this is the same as A.k = C.k on the rows that survive
            pairs = [(b, c) for b in bs for c in C.rows() if eq(b["k"], c["k"])]
            for b, c in pairs:
                rows.append({**{(x, ""): v for x, v in a.items()}, ("b", ""): b["b"], ("c", ""): c["c"]})
            continue
        cs = [c for c in C.rows() if eq(a[ckey], c[ckey])]
        if case["t"] == "INNER":
            for b in bs:
                for c in cs:
                    rows.append({**{(x, ""): v for x, v in a.items()}, ("b", ""): b["b"], ("c", ""): c["c"]})
        else:
            for b in bs or [None]:
                for c in cs or [None]:
                    rows.append({**{(x, ""): v for x, v in a.items()}, ("b", ""): b["b"] if b else None, ("c", ""): c["c"] if c else None})
    return Counter(M.canon_row(r) for r in rows)


def gen_three(rng: Any) -> Dict[str, Any]:
    shape = rng.choice(["chain", "star", "star2"])
    t = "INNER" if shape == "chain" else rng.choice(["INNER", "LEFT"])
    r = rng.random()
    if r < 0.5:
        f = rng.choice(FWS)
        fws, cf = [f, f, f], [f]
    else:
        fws = [rng.choice(FWS) for _ in range(3)]
        cf = [rng.choice(fws)] if rng.random() < 0.8 else None
    allf = set(fws) | set(cf or [])
    dups = "py" not in allf
    nulls = allf == {"pa"}

    def keys(n: int) -> List[Any]:
        pool = [1, 2, 3, 4]
        if dups:
            ks = [rng.choice(pool) for _ in range(n)]
        else:
            ks = rng.sample(pool, n)
        if nulls and n and rng.random() < 0.3:
            ks[rng.randrange(n)] = None
        return ks

    na, nb, nc = rng.choice([1, 2, 3, 3]), rng.choice([1, 2, 3]), rng.choice([1, 2, 3])
    if shape == "star2":
        ka, ja = keys(na), keys(na)
        ta = [[ka[i], ja[i], 10 + i] for i in range(na)]
    else:
        ta = [[k, 10 + i] for i, k in enumerate(keys(na))]
    tb = [[k, 20 + i] for i, k in enumerate(keys(nb))]
    tc = [[k, 30 + i] for i, k in enumerate(keys(nc))]
    return {"shape": shape, "t": t, "fws": fws, "cfws": cf, "tables": [ta, tb, tc], "mode": "thread" if rng.random() < 0.1 else "sync"}


def check_three(ctx: Ctx, suite: str, cases: List[Dict[str, Any]]) -> None:
    lean_reqs, lean_exp = [], []
    for case in cases:
        srcs, links = three_layout(case)
        avail = sorted(set(case["fws"]) | set(case["cfws"] or []))
        res = run_request(srcs, links, case["cfws"], avail, case.get("mode", "sync"))
        exp = oracle_three(case)
        mixed = len(set(case["fws"]) | set(case["cfws"] or [])) > 1
        ctx.case(suite, case, sum(exp.values()) > 0, shape=case["shape"], jointype3=case["t"], mixed=mixed, outcome3=(res["err"] or "rows").split(":")[0])
        c = case["cfws"] or avail
        what = None
        shown: Any = res["err"]
        if res["err"]:
            if not (res["err"] == "reject:noFramework" and not any(f in c for f in case["fws"])):
                what = f"the request fails with {res['err']}"
        else:
            got = res["got"]
            _, bag = M.tag_rows(got["kind"], [], got["cols"], got["rows"])
            shown = {"kind": got["kind"], "cols": got["cols"], "rows": M.exact_bag(got["rows"])}
            if got["kind"] not in c:
                what = f"the consumer is executed on {got['kind']}, its compute_framework_rule allows {c}"
            elif bag != exp:
                what = f"three sources ({case['shape']}, {case['t']}): the consumer received rows that are not the join of the link tree: missing {list((exp - bag).elements())[:3]} unexpected {list((bag - exp).elements())[:3]}"
        if what is not None:
            cls = None
            if case.get("mode") == "thread":
                cls = "three-sources-threading"
            elif mixed:
                cls = "three-sources-across-frameworks"
            elif res["err"] == "fw:pydict-empty-table" and case["fws"][0] == "py" and sum(exp.values()) == 0:
                cls = "pydict-framework-empty-table"
            ctx.violation(suite, case, what, shown, sorted(exp.elements()), finding_class=cls)
        if case["t"] == "INNER" and case["shape"] in ("chain", "star"):
            (A, B, C), _ = three_layout(case)
            enc = lambda s: [[[cc, v] for cc, v in zip(s.cols, r)] for r in s.data]  # noqa: E731
            lean_reqs.append({"op": "C05.joinAll", "ks": ["k"], "L": enc(A), "Ts": [enc(B), enc(C)]})
            lean_exp.append((case, exp))
    # the Lean spec of n-way inner joins (Rel.joinAll) and the oracle must agree
    for (case, exp), o in zip(lean_exp, ctx.lean.batch(lean_reqs)):
        _, bag = M.tag_rows("spec", [], [], M.lean_rows(o) if isinstance(o, list) else [])
        if bag != exp:
            ctx.disagree(suite + "/spec-vs-oracle", case, sorted(exp.elements()), sorted(bag.elements()))


# ----------------------------------------------------------------------------------------------------------------
# two consumers that share one right-hand source ("diamond"): oracle only, every consumer is checked
# case = {"t", "keycfg": "1same"|"1diff", "fws": [f1, f2, fr], "cons": [[fw..], [fw..]], "tables": [T1, T2, TR]}
#   L1 --t--> R <--t-- L2 ; consumer 1 depends on (L1, R), consumer 2 on (L2, R); both are requested in one call


def diamond_layout(case: Dict[str, Any]) -> Tuple[List[Source], List[Tuple[Any, ...]], List[Tuple[List[int], Optional[List[str]]]]]:
    f1, f2, fr = case["fws"]
    lk, rk = (["k"], ["k"]) if case["keycfg"] == "1same" else (["lk"], ["rk"])
    L1 = Source("L1", f1, lk, lk + ["a"], case["tables"][0], ["a"], "Int64")
    L2 = Source("L2", f2, lk, lk + ["b"], case["tables"][1], ["b"], "Int64")
    R = Source("R", fr, rk, rk + ["r"], case["tables"][2], ["r"], "Int64")
    return [L1, L2, R], [(case["t"], 0, 2), (case["t"], 1, 2)], [([0, 2], case["cons"][0]), ([1, 2], case["cons"][1])]


def diamond_class(case: Dict[str, Any]) -> Optional[str]:
    """shapes in which the unchanged tree already hands a consumer something else than its own join (narrow classes);
    None = the clean shape: the shared source lives on a framework of its own and each consumer admits its left source's
    framework"""
    f1, f2, fr = case["fws"]
    if fr in (f1, f2):
        return "shared-source-on-a-left-sources-framework"
    if f1 not in case["cons"][0] or f2 not in case["cons"][1]:
        return "shared-source-consumer-not-on-its-left-framework"
    return None


def gen_diamond(rng: Any) -> Dict[str, Any]:
    t = rng.choice(["INNER", "LEFT", "OUTER"])
    r = rng.random()
    if r < 0.45:  # both left sources on one framework, the shared source on another
        f1 = f2 = rng.choice(FWS)
        fr = rng.choice([f for f in FWS if f != f1])
    elif r < 0.75:
        f1, f2 = rng.sample(FWS, 2)
        fr = [f for f in FWS if f not in (f1, f2)][0]
    else:
        f1, f2, fr = rng.choice(FWS), rng.choice(FWS), rng.choice(FWS)
    cons = [[f1], [f2]]
    if rng.random() < 0.15:
        cons[rng.randrange(2)] = [fr]
    allf = {f1, f2, fr}
    dups = "py" not in allf
    pool = [1, 2, 3, 4, 5]

    def tab(n: int, base: int) -> List[List[Any]]:
        ks = [rng.choice(pool) for _ in range(n)] if dups else rng.sample(pool, n)
        return [[k, base + i] for i, k in enumerate(ks)]

    return {"t": t, "keycfg": rng.choice(["1same", "1same", "1diff"]), "fws": [f1, f2, fr], "cons": cons,
            "tables": [tab(rng.choice([1, 2, 3]), 10), tab(rng.choice([1, 2, 3]), 20), tab(rng.choice([1, 2, 3]), 30)]}  # fmt: skip


def witness_diamond() -> List[Dict[str, Any]]:
    tabs = [[[1, 10], [2, 20], [3, 30]], [[3, 3000], [4, 4000], [5, 5000]], [[2, 200], [3, 300], [4, 400]]]
    out = []
    for t in ("INNER", "LEFT"):
        for f1, f2, fr in (("pd", "pd", "pa"), ("pa", "pa", "pd"), ("pd", "pa", "py"), ("pa", "pa", "py"), ("pd", "pd", "pd"), ("pd", "pa", "pa")):
            out.append({"t": t, "keycfg": "1same", "fws": [f1, f2, fr], "cons": [[f1], [f2]], "tables": tabs})
    return out


def check_diamond(ctx: Ctx, suite: str, cases: List[Dict[str, Any]]) -> None:
    for case in cases:
        srcs, links, consumers = diamond_layout(case)
        avail = sorted(set(case["fws"]) | set(case["cons"][0]) | set(case["cons"][1]))
        res = run_request(srcs, links, None, avail, "sync", consumers=consumers)
        exps = []
        for n in (0, 1):
            L, R = srcs[n], srcs[2]
            exps.append(M.oracle(case["t"], L.keys, R.keys, L.cols, R.cols, L.rows(), R.rows()))
        cls0 = diamond_class(case)
        ctx.case(suite, case, all(sum(e["rows"].values()) > 0 for e in exps), jointype_d=case["t"], shape_d=cls0 or "clean", fws_d="-".join(case["fws"]), outcome_d=(res["err"] or "rows").split(":")[0])
        whats: List[str] = []
        shown: Any = res["err"]
        if res["err"]:
            whats.append(f"two consumers sharing a source: the request fails with {res['err']}")
        else:
            shown = [{"kind": g["kind"], "cols": g["cols"], "rows": M.exact_bag(g["rows"])} for g in res["gots"]]
            for n, g in enumerate(res["gots"]):
                own = f"z{n}"
                rows = [[(c, v) for c, v in r if c != own] for r in g["rows"]]  # the consumer's own output column is not an input
                cols = [c for c in g["cols"] if c != own]
                schema, bag = M.tag_rows(g["kind"], [], cols, rows)
                if g["kind"] not in case["cons"][n]:
                    whats.append(f"consumer {n} is executed on {g['kind']}, its rule allows {case['cons'][n]}")
                elif bag != exps[n]["rows"]:
                    whats.append(f"consumer {n} (of L{n + 1} and R, {case['t']}) received rows that are not its join: missing {list((exps[n]['rows'] - bag).elements())[:3]} "
                                 f"unexpected {list((bag - exps[n]['rows']).elements())[:3]}")  # fmt: skip
                elif g["kind"] in ("pd", "pa") and schema != exps[n]["schema"]:
                    whats.append(f"consumer {n} received columns {sorted(schema)}, expected {sorted(exps[n]['schema'])}")
        if whats:
            cls = cls0
            if cls is None and res["err"] == "fw:pydict-empty-table" and "py" in case["fws"] and any(sum(e["rows"].values()) == 0 for e in exps):
                cls = "pydict-framework-empty-table"
            if cls is None and case["keycfg"] == "1diff" and case["t"] == "OUTER" and "pa" in case["fws"][:2]:
                cls = "merge-engine/pyarrow-single-key-different-names-right-outer"
            ctx.violation(suite, case, "; ".join(whats), shown, [sorted(e["rows"].elements()) for e in exps], finding_class=cls)


def witness_three() -> List[Dict[str, Any]]:
    """O9: sources A, B on Pandas, C on PyArrow, inner links A-B, B-C, consumer on PyArrow (and the single-framework controls)"""
    tabs = [[[1, 10], [2, 20], [3, 30]], [[2, 5], [3, 6], [4, 7]], [[3, 8], [4, 9], [1, 7]]]
    out = []
    for shape in ("chain", "star"):
        for fws, cf in ((["pd", "pd", "pa"], ["pa"]), (["pa", "pd", "pa"], ["pa"]), (["pa", "pa", "pa"], ["pa"]), (["pd", "pd", "pd"], ["pd"]), (["py", "py", "py"], ["py"])):
            out.append({"shape": shape, "t": "INNER", "fws": fws, "cfws": cf, "tables": tabs, "mode": "sync"})
    return out


# ----------------------------------------------------------------------------------------------------------------


def run(ctx: Ctx) -> None:
    ctx.extra["rule"] = (
        "case = one mloda request (prepare + run): source tables x link(s) x key naming x framework of each source x admissible frameworks of the consumer x mode; "
        "observed = rows handed to the consumer's calculate_feature; compared with the nested-loop oracle and (one link) with JoinPlan + engine models in Lean; "
        "non-trivial = all source tables non-empty and at least one matching key pair"
    )
    old = os.environ.get(F.LOG_ENV)
    fd, path = tempfile.mkstemp(prefix="verif-c05-", suffix=".log")
    os.close(fd)
    os.environ[F.LOG_ENV] = path
    try:
        check_two(ctx, "witness", witness_two())
        n = ctx.budget(1500, 9000)
        cases = [gen_two(ctx.rng) for _ in range(n)]
        for i in range(0, len(cases), 1000):
            check_two(ctx, "two-sources", cases[i : i + 1000])
        # O9 is not deterministic between preparations: repeat the witness a few times
        check_three(ctx, "three-witness", witness_three() * 3)
        check_three(ctx, "three-sources", [gen_three(ctx.rng) for _ in range(ctx.budget(400, 3000))])
        check_diamond(ctx, "shared-source-witness", witness_diamond())
        check_diamond(ctx, "shared-source", [gen_diamond(ctx.rng) for _ in range(ctx.budget(300, 3000))])
    finally:
        if old is None:
            os.environ.pop(F.LOG_ENV, None)
        else:
            os.environ[F.LOG_ENV] = old
        try:
            os.unlink(path)
        except OSError:
            pass


def search(ctx: Ctx, broken: List[str]) -> None:
    run(ctx)


def replay(ctx: Ctx, body: Dict[str, Any]) -> None:
    case = body.get("case")
    if isinstance(case, dict) and "cons" in case:
        fd, path = tempfile.mkstemp(prefix="verif-c05-", suffix=".log")
        os.close(fd)
        os.environ[F.LOG_ENV] = path
        check_diamond(ctx, body.get("suite", "replay"), [case])
        return
    if isinstance(case, dict) and "shape" in case:
        fd, path = tempfile.mkstemp(prefix="verif-c05-", suffix=".log")
        os.close(fd)
        os.environ[F.LOG_ENV] = path
        check_three(ctx, body.get("suite", "replay"), [case] * 5)
        return
    if not isinstance(case, dict) or "lf" not in case:
        run(ctx)
        return
    fd, path = tempfile.mkstemp(prefix="verif-c05-", suffix=".log")
    os.close(fd)
    os.environ[F.LOG_ENV] = path
    check_two(ctx, body.get("suite", "replay"), [case])
