"""C13 - streaming yields the same results as the batch call."""
from __future__ import annotations

import gc
import json
import multiprocessing
import threading
import time
from typing import Any, Dict, List, Optional

from harness.core import Ctx
from harness import fgfactory as F
from harness import schedlib as S

ASSUMPTIONS = [
    "a generator that is neither exhausted nor closed keeps its resources until CPython finalises it (not modelled); the harness closes or drops it explicitly",
    "thread / process liveness is observed through threading.enumerate() and multiprocessing.active_children() after a short grace period",
]


def live_workers(baseline_threads: set, flight_pid: Optional[int]) -> Dict[str, Any]:
    deadline = time.time() + 3.0
    while True:
        th = [t.name for t in threading.enumerate() if t.ident not in baseline_threads and t.is_alive() and not t.daemon]
        pr = [p.pid for p in multiprocessing.active_children() if p.pid != flight_pid]
        if (not th and not pr) or time.time() > deadline:
            return {"threads": th, "processes": pr}
        time.sleep(0.02)


def consume(session: Any, mode: str, behaviour: str, k: int, fs: Any) -> Dict[str, Any]:
    import os
    import tempfile

    kw: Dict[str, Any] = {"parallelization_modes": {S.MODES[mode]}, "flight_server": fs}
    out: List[Any] = []
    err = None
    fd, path = tempfile.mkstemp(prefix="verif_ev_", suffix=".jsonl")
    os.close(fd)
    os.environ[F.LOG_ENV] = path
    gen = session.stream_run(**kw)
    try:
        if behaviour == "drain":
            for item in gen:
                out.append(item)
        elif behaviour == "close":
            for item in gen:
                out.append(item)
                if len(out) >= k:
                    break
            gen.close()
        elif behaviour == "drop":
            for item in gen:
                out.append(item)
                if len(out) >= k:
                    break
            del gen
            gc.collect()
        elif behaviour == "throw":
            for item in gen:
                out.append(item)
                if len(out) >= k:
                    try:
                        gen.throw(RuntimeError("consumer failed"))
                    except RuntimeError:
                        pass
                    except StopIteration:
                        pass
                    break
    except BaseException as e:  # noqa
        err = repr(e)[-300:]
    time.sleep(0.002)
    events = S.read_events(path)
    os.environ.pop(F.LOG_ENV, None)
    try:
        os.unlink(path)
    except OSError:
        pass
    return {"items": out, "error": err, "events": events}


def ordered_canon(tables: Optional[List[Any]], keep_column_order: bool, sort_rows: bool = False) -> Any:
    """tables with their column order; `sort_rows` for join results, whose row order is not defined (Acero)"""
    out = []
    for t in tables or []:
        cols = F.to_columns(t)
        names = list(cols) if keep_column_order else sorted(cols)
        if sort_rows and names:
            n = len(cols[names[0]])
            rows = sorted([[cols[c][i] for c in names] for i in range(n)], key=lambda x: json.dumps(x, default=str))
            cols = {c: [row[j] for row in rows] for j, c in enumerate(names)}
        out.append([type(t).__name__, [[c, cols[c]] for c in names]])
    return sorted(out, key=lambda x: json.dumps(x, default=str))


def api_args_suite(ctx: Ctx) -> None:
    """stream_all against run_all "with the same arguments": every argument that changes what run_all returns (or whether it
    raises) must change the stream the same way - column_ordering, strict_type_enforcement, global_filter, api_data, links,
    compute_frameworks, function_extender, parallelization_modes."""
    from mloda.user import mloda, stream_all, GlobalFilter, Feature, DataType
    from mloda.steward import Extender, ExtenderHook
    from mloda_plugins.feature_group.input_data.api_data.api_data import ApiInputDataFeature

    class Counting(Extender):
        def __init__(self) -> None:
            self.calls = 0

        def wraps(self) -> Any:
            return {ExtenderHook.FEATURE_GROUP_CALCULATE_FEATURE}

        def __call__(self, func: Any, *args: Any, **kwargs: Any) -> Any:
            self.calls += 1
            return func(*args, **kwargs)

    for _ in range(ctx.budget(40, 600)):
        kind = ctx.rng.choice(["dag", "dag", "dag", "link", "api"])
        kw: Dict[str, Any] = {}
        varied: List[str] = []
        if kind == "link":
            spec = S.gen_link_spec(ctx.rng, frameworks=("pa",), nsrc=2, jointypes=("inner", "left", "outer"))
            classes, links, feats, fws = S.build_link_request(spec)
            kw.update(links=links, compute_frameworks=fws, plugin_collector=F.collector(set(classes.values())))
            features: List[Any] = list(feats)
            varied.append("links")
        elif kind == "api":
            uid = F.uniq("")
            cols = {f"ap{uid}_{i}": [ctx.rng.randint(0, 9) for _ in range(3)] for i in range(ctx.rng.randint(2, 4))}
            kw.update(api_data={f"Key{uid}": cols}, compute_frameworks={F.FW_SHORT[ctx.rng.choice(["pa", "pd", "py"])]}, plugin_collector=F.collector({ApiInputDataFeature}))
            features = ctx.rng.sample(list(cols), ctx.rng.randint(2, len(cols)))
            spec = {"api_data": {f"Key{uid}": cols}, "request": features}
            varied.append("api_data")
        else:
            fw = ctx.rng.choice(["pa", "pa", "pd", "py"])
            spec = S.gen_spec(ctx.rng, max_feats=6, frameworks=(fw,), allow_options=False)
            names = [f for g in spec["groups"] for f in g["features"]] + list(spec["roots"][0]["cols"])
            spec["request"] = [{"name": nm, "options": {}} for nm in ctx.rng.sample(names, min(len(names), ctx.rng.randint(2, 5)))]
            classes = S.build_classes(spec)
            kw.update(compute_frameworks=S.frameworks_of(spec), plugin_collector=F.collector(set(classes.values())))
            features = []
            typed = fw == "pa" and ctx.rng.random() < 0.4
            for rq in spec["request"]:
                if typed and rq["name"] in spec["roots"][0]["cols"] and all(v is not None for v in spec["roots"][0]["cols"][rq["name"]]):
                    rq["dtype"] = ctx.rng.choice(["INT64", "INT32", "DOUBLE"])
                    features.append(Feature(rq["name"], data_type=DataType[rq["dtype"]]))
                else:
                    features.append(rq["name"])
            if typed:
                kw["strict_type_enforcement"] = ctx.rng.random() < 0.6
                varied.append("strict_type_enforcement")
            rootcols = [c for c, v in spec["roots"][0]["cols"].items() if all(x is not None for x in v)]
            if fw in ("pa", "pd") and rootcols and ctx.rng.random() < 0.35:
                gf = GlobalFilter()
                fc = ctx.rng.choice(rootcols)
                gf.add_filter(fc, "min", {"value": ctx.rng.randint(-3, 6)})
                kw["global_filter"] = gf
                spec["global_filter"] = [fc, "min"]
                varied.append("global_filter")
        ordering = ctx.rng.choice([None, "alphabetical", "alphabetical", "request_order", "request_order"])
        if ordering:
            kw["column_ordering"] = ordering
            varied.append("column_ordering")
        mode = ctx.rng.choice(["sync", "sync", "thread"])
        kw["parallelization_modes"] = {S.MODES[mode]}
        use_ext = ctx.rng.random() < 0.3
        outs = []
        for api in ("run_all", "stream_all"):
            ext = Counting()
            kw2 = dict(kw)
            if use_ext:
                kw2["function_extender"] = {ext}
            fin, res = S.guarded(lambda: (mloda.run_all(list(features), **kw2) if api == "run_all" else list(stream_all(list(features), **kw2))), 60)
            if not fin:
                outs.append({"timeout": True})
            elif isinstance(res, BaseException):
                outs.append({"error": type(res).__name__})
            else:
                outs.append({"tables": ordered_canon(res, ordering is not None, sort_rows=(kind == "link")), "extender_calls": ext.calls})
        if use_ext:
            varied.append("function_extender")
        case = {"spec": spec, "kind": kind, "args": {k_: (sorted(str(x) for x in v) if isinstance(v, set) else str(v))[:200] for k_, v in kw.items() if k_ not in ("plugin_collector", "links", "api_data")},
                "features": [str(f) for f in features]}  # fmt: skip
        multi_col = any(len(t[1]) >= 2 for o in outs if "tables" in o for t in o["tables"])
        ctx.case("api_args", case, bool(varied) and (multi_col or "error" in outs[0]), kind=kind, ordering=str(ordering), mode=mode,
                 outcome=next(iter(outs[0])), varied="+".join(sorted(varied)) or "-")  # fmt: skip
        if mode == "thread" and outs[0] != outs[1] and ("error" in outs[0] or "error" in outs[1]):
            # the THREADING lost update makes single runs fail at random; it is C06's finding, not a difference between the two APIs
            ctx.tag("api_args_thread_error_not_compared", 1)
            continue
        if outs[0] != outs[1]:
            ctx.violation("api_args", case, "stream_all and run_all with the same arguments differ (tables with column order / raised error / extender calls)", outs[1], outs[0])


def run(ctx: Ctx) -> None:
    ctx.extra["rule"] = (
        "api_args: run_all vs list(stream_all) with identical argument sets (column_ordering, strict_type_enforcement, global_filter, api_data, links, frameworks, "
        "extenders, modes): same tables incl. column order, same error class, same extender call count; history differential: generated requests (link-free DAGs with several result steps, two-source joins) x mode x consumer behaviour "
        "(drain | stop after k then close | stop after k then drop the generator | throw into the generator) x repeated streamed runs on one session; "
        "the multiset of yielded tables must equal the batch result of session.run, every item must be one complete step table, nothing twice, and after "
        "every behaviour no worker thread/process of the run may stay alive; the drained trace is also accepted by the Lean model whose `yielded` is a "
        "permutation of `results`; non-trivial = >=2 result tables and (early stop or a repeated run)"
    )
    api_args_suite(ctx)
    S.install_step_observers()
    n = ctx.budget(70, 1200)
    base_threads = {t.ident for t in threading.enumerate()}
    lean_reqs: List[Dict[str, Any]] = []
    metas: List[Any] = []
    for _ in range(n):
        if ctx.rng.random() < 0.8:
            spec = S.gen_spec(ctx.rng, max_feats=6, frameworks=(ctx.rng.choice(["pa", "pd", "py"]),), allow_options=ctx.rng.random() < 0.5)
            # ask for several features so that several steps carry results
            names = [f for g in spec["groups"] for f in g["features"]] + list(spec["roots"][0]["cols"])
            spec["request"] = [{"name": nm, "options": {}} for nm in ctx.rng.sample(names, min(len(names), ctx.rng.randint(2, 4)))]
            try:
                sess = S.prepare(spec, S.build_classes(spec))
            except Exception:
                continue
        else:
            spec = S.gen_link_spec(ctx.rng, frameworks=("pa",), nsrc=2, jointypes=("inner", "left", "outer"))
            try:
                sess = S.prepare_link(spec)
            except Exception:
                continue
        linked = "sources" in spec
        exp = S.export_plan(sess)
        batch = S.run_session(sess, "sync")
        if batch.error is not None:
            ctx.tag("skipped_failing_without_stream", 1)
            continue
        want = S.tables_canon(batch.results, sort_rows=linked)
        nres = len(batch.results or [])
        history = []
        for rep in range(ctx.rng.randint(1, 3)):
            mode = ctx.rng.choice(["sync", "sync", "thread", "thread", "mp"] if not ctx.quick else ["sync", "sync", "thread", "thread", "thread", "mp"])
            behaviour = ctx.rng.choice(["drain", "drain", "close", "drop", "throw"])
            k = ctx.rng.randint(1, max(1, nres))
            fs = S.flight_server() if mode == "mp" else None
            flight_pid = S._flight.flight_server_process.pid if S._flight is not None and S._flight.flight_server_process else None
            fin, res = S.guarded(lambda: consume(sess, mode, behaviour, k, fs), 60)
            if not fin:  # did not end: repeat once; a hang that reproduces is reported, one that does not is a fork/thread flake
                S.kill_stray_children()
                S.FLAKES["hangs_retried"] += 1
                fin, res = S.guarded(lambda: consume(sess, mode, behaviour, k, fs), 60)
            history.append([mode, behaviour, k])
            if not fin:
                S.kill_stray_children()
                ctx.violation("stream", {"spec": spec, "history": list(history)}, f"streamed run ({behaviour}) did not end within 60 s, twice", "timeout", "return or raise")
                break
            if isinstance(res, BaseException):
                raise res
            got = S.tables_canon(res["items"], sort_rows=linked)
            case = {"spec": spec, "history": list(history)}
            fclass = "threading-overlapping-steps-on-shared-cfw" if (mode == "thread" and S.overlap_on_shared_fw(exp, res["events"])) else None
            if mode == "mp" and S.mp_unuploaded_tfs_source(exp):
                fclass = "multiprocessing-transform-source-not-uploaded"
            ctx.case("stream", case, nres >= 2 and (behaviour != "drain" or rep > 0), mode=mode, behaviour=behaviour, nres=nres)
            if res["error"] and behaviour == "drain":
                ctx.violation("stream", case, f"draining the stream raised although the batch run succeeds: {res['error']}", res["error"], "ok", finding_class=fclass)
                continue
            if behaviour == "drain":
                if got != want:
                    ctx.violation("stream", case, "multiset of yielded tables differs from the batch result", got, want, finding_class=fclass)
            else:
                # a prefix: every yielded item is one of the batch tables, none twice
                pool = list(want)
                for t in got:
                    if t in pool:
                        pool.remove(t)
                    else:
                        ctx.violation("stream", case, "an item yielded before the consumer stopped is not a (distinct) complete table of the batch result", t, want)
                        break
                if len(got) > k + 0 and behaviour in ("close", "drop"):
                    ctx.violation("stream", case, "generator yielded after the consumer stopped", len(got), k)
            left = live_workers(base_threads, flight_pid)
            if left["threads"] or left["processes"]:
                ctx.violation("stream", case, f"workers still alive after the streamed run ended ({behaviour}): {left}", left, {"threads": [], "processes": []})
            # a later batch run on the same session is unaffected
            again = S.run_session(sess, "sync")
            if S.tables_canon(again.results, sort_rows=linked) != want:
                ctx.violation("stream", case, "batch run after a streamed run differs from the first batch run", S.tables_canon(again.results, sort_rows=linked), want)
        # model: drained trace accepted; yielded is a permutation of results
        mmode = ctx.rng.choice(["sync", "thread"])
        rr = S.run_session(sess, mmode, stream=True)
        obs = S.obs_of(exp, rr.events)
        if rr.error is not None or rr.timed_out:
            fclass = "threading-overlapping-steps-on-shared-cfw" if (mmode == "thread" and S.overlap_on_shared_fw(exp, rr.events)) else None
            ctx.violation("stream", {"spec": spec, "mode": mmode}, f"draining the stream raised although the batch run succeeds: {(rr.error or 'timeout')[-200:]}", rr.error, "ok", finding_class=fclass)
            continue
        lean_reqs.append({"op": "C13.accepts", "steps": S.lean_plan(exp)["steps"], "obs": obs})
        metas.append((spec, rr, nres))
    S.stop_flight_server()
    outs = ctx.lean.batch(lean_reqs)
    for rq, (spec, rr, nres), o in zip(lean_reqs, metas, outs):
        ctx.case("accepts", {"spec": spec, "obs": rq["obs"]}, nres >= 2)
        if not o.get("ok"):
            ctx.disagree("accepts", {"spec": spec, "obs": rq["obs"]}, "observed trace", o)
            continue
        st = o["state"]
        if sorted(st["yielded"]) != sorted(st["results"]) or len(st["results"]) != len(rr.yielded) or len(rr.yielded) != nres:
            ctx.disagree("accepts", {"spec": spec}, {"yielded": len(rr.yielded), "batch": nres}, st)


def search(ctx: Ctx, broken: List[str]) -> None:
    run(ctx)


def replay(ctx: Ctx, body: Dict[str, Any]) -> None:
    run(ctx)
