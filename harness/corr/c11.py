"""C11 - global filters keep exactly the satisfying rows, on every framework.

Suites
  dispatch   BaseFilterEngine.do_filter (recording subclass) vs Gen.filterDispatch, every FilterType + non-members
  engine_fn  the three REAL filter engines (pandas on the default `str` column index, plus an object column index tag) vs
             PyDict / ArrowSem / PandasSem on generated typed columns x filter types x parameters (+ malformed stream)
  apply_fn   BaseFilterEngine.apply_single_filters on a real FeatureSet (set iteration order passed to the model)
  time_fn    GlobalFilter._check_and_convert_time_info on aware datetimes in zoneinfo zones (folds, gaps, LMT offsets)
  e2e        mloda.run_all(..., global_filter=...) on all frameworks, groups that do / do not expose the filter column
  e2e_time   add_time_and_time_travel_filters with bounds given in arbitrary zones, ISO-string time column

The oracle (`oracle_*`) is plain Python written from the property text; it is evaluated on the outputs of the real
engines of ALL frameworks.  Domain of the oracle: well-formed parameters whose values have the column's type class
(numbers for int/float columns, strings for string columns; regex only on string columns).  Outside that domain the
property says nothing (the engines raise type errors in library-specific ways); those cases are only compared with the
models.
"""
from __future__ import annotations

import datetime as dtm
import re
from fractions import Fraction
from typing import Any, Callable, Dict, List, Optional, Tuple

from harness.core import Ctx
from harness import fgfactory as F

ASSUMPTIONS = [
    "ArrowSem / PandasSem (lean/MlodaVerif/Model/Filter.lean) are ASSUMED semantics of pyarrow.compute / pandas calls; they are differential-tested against the real engines on every run, not proved",
    "regex: only the fragment `^`? (literal | `.`)* is modelled, with re.match (start-anchored) semantics for PythonDict/pandas and RE2 search semantics for pyarrow; the oracle reads 'satisfies a regex filter' as re.match on the text of the value (the reading two of the three engines implement)",
    "floats are dyadic rationals of small magnitude (exact in binary64, exact as Lean Rat); str(float) is modelled for those only",
    "oracle domain: parameter values of the column's type class; type-mismatched parameters (engines raise library-specific type errors) are compared model-vs-code only",
    "max_exclusive is a bool (all engines test `is True`; a truthy non-bool flag is treated as inclusive by all of them - not generated for the oracle)",
    "time: datetime.astimezone/isoformat are modelled (CPython _ord2ymd + formatting), the tz database / fold resolution is an input (utcoffset() read off the real object); utc offsets are whole seconds",
    "identity_matched_filters is modelled by its name criterion only (domain / compute-framework criteria are not generated)",
]

ID = "#"

# --------------------------------------------------------------------------------------
# value encoding for the Lean driver


def jval(v: Any) -> Any:
    if v is None:
        return None
    if isinstance(v, bool):
        raise TypeError("bool cells are not generated")
    if isinstance(v, int):
        return {"t": "i", "v": v}
    if isinstance(v, float):
        fr = Fraction(v)  # exact
        return {"t": "q", "n": fr.numerator, "d": fr.denominator}
    if isinstance(v, str):
        return {"t": "s", "v": v}
    raise TypeError(type(v))


MISSING = object()


def jcell(v: Any) -> Any:
    return {"t": "m"} if v is MISSING else jval(v)


def jfilter(col: str, ftype: str, params: Dict[str, Any]) -> Dict[str, Any]:
    vals = params.get("values")
    if vals is None:
        jv: Any = None
    elif isinstance(vals, list):
        jv = {"list": [jval(x) for x in vals]}
    elif isinstance(vals, tuple):
        jv = {"tuple": [jval(x) for x in vals]}
    else:
        jv = {"scalar": jval(vals)}
    return {
        "col": col,
        "ftype": ftype,
        "value": jval(params.get("value")),
        "values": jv,
        "min": jval(params.get("min")),
        "max": jval(params.get("max")),
        "excl": params.get("max_exclusive", False) is True,
    }


def cls_of(v: Any) -> str:
    return "null" if v is None else ("str" if isinstance(v, str) else "num")


def ct_class(ct: str) -> str:
    return "str" if ct == "str" else "num"


# --------------------------------------------------------------------------------------
# the oracle: one pure-Python predicate per filter type, from the property text


def oracle_pred(ftype: str, p: Dict[str, Any]) -> Optional[Callable[[Any], bool]]:
    """predicate on a cell value, or None when the parameters are not a well-formed filter of that type"""
    if ftype == "range":
        lo, hi = p.get("min"), p.get("max")
        if lo is None or hi is None:
            return None
        if p.get("max_exclusive", False) is True:
            return lambda x: x is not None and lo <= x and x < hi  # lower inclusive, upper exclusive as flagged
        return lambda x: x is not None and lo <= x and x <= hi
    if ftype == "min":
        v = p.get("value")
        return None if v is None else (lambda x: x is not None and x >= v)
    if ftype == "max":
        # both parameter styles the code accepts: {"max": m, "max_exclusive": b} and {"value": v}
        if p.get("max") is not None:
            if p.get("min") is not None:
                return None
            m = p["max"]
            if p.get("max_exclusive", False) is True:
                return lambda x: x is not None and x < m
            return lambda x: x is not None and x <= m
        v = p.get("value")
        return None if v is None else (lambda x: x is not None and x <= v)
    if ftype == "equal":
        v = p.get("value")
        return None if v is None else (lambda x: x is not None and x == v)
    if ftype == "regex":
        v = p.get("value")
        if not isinstance(v, str):
            return None
        try:
            rx = re.compile(v)
        except re.error:
            return None
        return lambda x: x is not None and rx.match(str(x)) is not None
    if ftype == "categorical_inclusion":
        vs = p.get("values")
        if not isinstance(vs, (list, tuple)):
            return None
        return lambda x: any((x is None and y is None) or (x is not None and y is not None and x == y) for y in vs)
    return None


def in_oracle_domain(ct: str, ftype: str, p: Dict[str, Any]) -> bool:
    """parameters well-formed and of the column's type class"""
    if oracle_pred(ftype, p) is None:
        return False
    cc = ct_class(ct)
    if ct == "mixed":
        return False
    if ftype == "regex":
        return cc == "str"
    if ftype == "categorical_inclusion":
        return all(v is None or cls_of(v) == cc for v in p["values"])
    if ftype == "range":
        return cls_of(p["min"]) == cc and cls_of(p["max"]) == cc
    if ftype == "max" and p.get("max") is not None:
        return cls_of(p["max"]) == cc
    return cls_of(p.get("value")) == cc


def oracle_rows(col: List[Any], ftype: str, p: Dict[str, Any]) -> List[int]:
    pred = oracle_pred(ftype, p)
    assert pred is not None
    return [k for k, x in enumerate(col) if pred(None if x is MISSING else x)]


# --------------------------------------------------------------------------------------
# finding classes (narrow predicates on the case + observed output)


def finding_class(eng: str, ct: str, col: List[Any], ftype: str, p: Dict[str, Any], impl: Dict[str, Any], expected: List[int]) -> Optional[str]:
    # (a KeyError of the pandas engine on the default str-dtype column index was finding F-C11-pandas-featurename-keyerror,
    #  fixed by commit 15de8bc: it is no known class any more, so it is reported as a new violation if it comes back)
    if eng == "pa" and ftype == "regex" and isinstance(p.get("value"), str) and not p["value"].startswith("^") and "ok" in impl:
        rx = re.compile(p["value"])
        searched = [k for k, x in enumerate(col) if x is not None and rx.search(x) is not None]
        if impl["ok"] == searched and searched != expected:
            return "pyarrow-regex-is-substring-search"
    if ftype == "categorical_inclusion" and isinstance(p.get("values"), (list, tuple)):
        vs = list(p["values"])
        if eng in ("pd", "pdobj") and ct in ("int", "float") and any(v is None for v in vs) and any(x is None for x in col) and "ok" in impl:
            if impl["ok"] == [k for k in expected if col[k] is not None]:
                return "pandas-isin-none-on-numeric-null"
        if eng == "pa" and ct == "str" and all(v is None for v in vs) and impl.get("err") == "type":
            return "pyarrow-isin-untyped-value-set-on-string-column"
    return None


# --------------------------------------------------------------------------------------
# generators

INTS = list(range(-2, 7))
FLOATS = [k / 4 for k in range(-6, 22)] + [0.125, 2.625, -0.375, 3.5, 2.0, 5.0]
STRS = ["", "a", "b", "ab", "abc", "ba", "bc", "aXc", "B", "x", "b\nc", "é", "bé", "2", "2.5", "c", "abd", "\n"]
PATTERNS = ["", "a", "b", "c", "ab", "bc", "^a", "^b", "^ab", "^", ".", "..", "a.", ".b", "^.b", "a.c", "b.c", "é", "X", "^x", "2", "^2."]
PATTERNS_OUTSIDE = ["a+", "[ab]", "b$", "a|b", "a*", "\\."]


def gen_column(rng: Any, ct: str, n: int) -> List[Any]:
    pool = {"int": INTS, "float": FLOATS, "str": STRS}[ct] if ct != "mixed" else INTS + STRS + FLOATS
    k = rng.choice([2, 3, 4, 6])
    sub = [rng.choice(pool) for _ in range(k)]  # few distinct values -> duplicates
    col: List[Any] = []
    pnull = rng.choice([0.0, 0.15, 0.3])
    for _ in range(n):
        if rng.random() < pnull:
            col.append(None)
        else:
            col.append(rng.choice(sub))
    if ct == "float" and rng.random() < 0.3 and col:
        # python ints inside a float column (legal for all three frameworks)
        i = rng.randrange(len(col))
        if col[i] is not None:
            col[i] = int(col[i]) if float(col[i]).is_integer() else col[i]
    return col


def pick(rng: Any, col: List[Any], ct: str, wrong: bool = False) -> Any:
    """a parameter value: mostly a value of the column (boundary), sometimes a neighbour from the pool, optionally of the wrong class"""
    cc = ct if ct != "mixed" else rng.choice(["int", "str"])
    if wrong:
        cc = "str" if cc in ("int", "float") else rng.choice(["int", "float"])
    nn = [v for v in col if v is not None and v is not MISSING and cls_of(v) == ct_class(cc)]
    if nn and rng.random() < 0.7:
        return rng.choice(nn)
    pool = {"int": INTS + [2.5, 2.0], "float": FLOATS + [2, 3], "str": STRS}[cc]
    return rng.choice(pool)


def gen_filter(rng: Any, col: List[Any], ct: str, stream: str, hashable: bool = False) -> Tuple[str, Dict[str, Any]]:
    """hashable: categorical values as a tuple (a list makes SingleFilter unhashable, so it cannot enter a set).
    stream: 'valid' (oracle domain), 'mismatch' (wrong type class), 'malformed' (unusable parameters / unknown type)"""
    wrong = stream == "mismatch"
    ft = rng.choice(["range", "range", "min", "max", "max", "equal", "regex", "categorical_inclusion", "categorical_inclusion"])
    if stream == "malformed":
        kind = rng.choice(["unknown", "missing", "maxmin", "scalar", "regexnum", "nonevalue"])
        if kind == "unknown":
            return rng.choice(["zscore", "RANGE", "custom", "Min"]), {"value": pick(rng, col, ct), "min": pick(rng, col, ct), "max": pick(rng, col, ct)}
        if kind == "missing":
            wrongkey = {"range": rng.choice([{"min": pick(rng, col, ct)}, {"max": pick(rng, col, ct)}, {"value": 1}]), "min": {"min": pick(rng, col, ct)}, "max": {"min": pick(rng, col, ct)},
                        "equal": {"values": (1,)}, "regex": {"values": ("a",)}, "categorical_inclusion": {"value": pick(rng, col, ct)}}  # fmt: skip
            return ft, wrongkey[ft]
        if kind == "maxmin":
            return "max", {"max": pick(rng, col, ct), "min": pick(rng, col, ct), "max_exclusive": rng.choice([True, False])}
        if kind == "scalar":
            return "categorical_inclusion", {"values": pick(rng, col, ct)}
        if kind == "regexnum":
            return "regex", {"value": rng.choice([2, 2.5])}
        return rng.choice(["min", "equal", "regex"]), {"value": None, "foo": 1}
    if ft == "range":
        a, b = pick(rng, col, ct, wrong and rng.random() < 0.5), pick(rng, col, ct, wrong)
        if cls_of(a) == cls_of(b) and a > b and rng.random() < 0.8:
            a, b = b, a
        p: Dict[str, Any] = {"min": a, "max": b}
        r = rng.random()
        if r < 0.45:
            p["max_exclusive"] = True
        elif r < 0.75:
            p["max_exclusive"] = False
        return ft, p
    if ft == "min":
        return ft, {"value": pick(rng, col, ct, wrong)}
    if ft == "max":
        style = rng.choice(["value", "max", "max_excl", "max_incl", "both"])
        if style == "value":
            return ft, {"value": pick(rng, col, ct, wrong)}
        if style == "both":  # `max` wins over `value`
            return ft, {"value": pick(rng, col, ct), "max": pick(rng, col, ct, wrong), "max_exclusive": rng.choice([True, False])}
        p = {"max": pick(rng, col, ct, wrong)}
        if style != "max":
            p["max_exclusive"] = style == "max_excl"
        return ft, p
    if ft == "equal":
        return ft, {"value": pick(rng, col, ct, wrong)}
    if ft == "regex":
        return ft, {"value": rng.choice(PATTERNS)}
    k = rng.choice([0, 1, 1, 2, 3])
    vs: List[Any] = [pick(rng, col, ct, wrong and rng.random() < 0.6) for _ in range(k)]
    if rng.random() < 0.3:
        vs.insert(rng.randrange(len(vs) + 1), None)
    if vs and rng.random() < 0.2:
        vs.append(vs[0])
    return ft, {"values": tuple(vs) if (hashable or rng.random() < 0.15) else vs}


# --------------------------------------------------------------------------------------
# building native data and running the real engines


def err_class(e: BaseException) -> str:
    if type(e) is ValueError:
        return "value"
    if type(e) is NotImplementedError:
        return "notimpl"
    if isinstance(e, KeyError):
        return "key"
    return "type"


def native(eng: str, cols: Dict[str, Tuple[str, List[Any]]]) -> Any:
    """cols: {name: (ct, cells)}; the id column '#' is added"""
    import pandas as pd
    import pyarrow as pa

    n = len(next(iter(cols.values()))[1]) if cols else 0
    if eng == "py":
        return [{**{c: v[k] for c, (_, v) in cols.items() if v[k] is not MISSING}, ID: k} for k in range(n)]
    if eng == "pa":
        PT = {"int": pa.int64(), "float": pa.float64(), "str": pa.string()}
        return pa.table({**{c: pa.array(v, type=PT[ct]) for c, (ct, v) in cols.items()}, ID: pa.array(list(range(n)), type=pa.int64())})
    d: Dict[str, Any] = {}
    for c, (ct, v) in cols.items():
        if ct == "str":
            d[c] = pd.Series(v, dtype="str")
        elif ct == "float" or any(x is None for x in v):
            d[c] = pd.Series(v, dtype="float64")
        else:
            d[c] = pd.Series(v, dtype="int64")
    d[ID] = pd.Series(list(range(n)), dtype="int64")
    df = pd.DataFrame(d)
    if eng == "pdobj":
        df.columns = pd.Index(list(d.keys()), dtype=object)
    return df


def ids_of(res: Any) -> List[int]:
    import pyarrow as pa

    if isinstance(res, list):
        return [r[ID] for r in res]
    if isinstance(res, pa.Table):
        return res.column(ID).to_pylist()
    return [int(x) for x in res[ID].tolist()]


def engines() -> Dict[str, Any]:
    from mloda_plugins.compute_framework.base_implementations.pandas.pandas_filter_engine import PandasFilterEngine
    from mloda_plugins.compute_framework.base_implementations.pyarrow.pyarrow_filter_engine import PyArrowFilterEngine
    from mloda_plugins.compute_framework.base_implementations.python_dict.python_dict_filter_engine import PythonDictFilterEngine

    return {"py": PythonDictFilterEngine, "pa": PyArrowFilterEngine, "pd": PandasFilterEngine, "pdobj": PandasFilterEngine}


def lean_eng(eng: str) -> Dict[str, Any]:
    # both pandas tags (default str-dtype column index / object-dtype column index) are the same engine model
    return {"eng": "pd"} if eng in ("pd", "pdobj") else {"eng": eng}


def jcols(cols: Dict[str, Tuple[str, List[Any]]]) -> List[Any]:
    return [[c, [jcell(x) for x in v]] for c, (_, v) in cols.items()]


def nontrivial_col(col: List[Any], p: Dict[str, Any]) -> bool:
    vals = [v for v in col if v is not None and v is not MISSING]
    bounds = [p.get("min"), p.get("max"), p.get("value")] + (list(p["values"]) if isinstance(p.get("values"), (list, tuple)) else [])
    boundary = any(b is not None and any(cls_of(b) == cls_of(v) and b == v for v in vals) for b in bounds)
    return boundary or any(v is None for v in col) or len(set(map(repr, vals))) < len(vals)


# --------------------------------------------------------------------------------------
# suites


def suite_dispatch(ctx: Ctx) -> None:
    from mloda.core.filter.filter_engine import BaseFilterEngine
    from mloda.core.filter.filter_type_enum import FilterType
    from mloda.core.filter.single_filter import SingleFilter
    from harness.extractors.c11 import METHODS, UNKNOWN_PROBES

    calls: List[str] = []
    Rec = type("Rec", (BaseFilterEngine,), {m: classmethod(lambda cls, data, f, m=m: calls.append(m) or data) for m in METHODS})
    expected = {"range": "do_range_filter", "min": "do_min_filter", "max": "do_max_filter", "equal": "do_equal_filter", "regex": "do_regex_filter",
                "categorical_inclusion": "do_categorical_inclusion_filter"}  # fmt: skip
    probes = [m.value for m in FilterType] + UNKNOWN_PROBES + ["between", "MAX", " equal"]
    outs = ctx.lean.batch([{"op": "C11.dispatch", "ftype": t} for t in probes])
    for t, o in zip(probes, outs):
        calls.clear()
        Rec.do_filter("D", SingleFilter("c", t, {"value": 1}))
        impl = calls[0] if len(calls) == 1 else calls
        ctx.case("dispatch", t, t in expected, member=t in expected)
        if impl != o:
            ctx.disagree("dispatch", t, impl, o)
        exp = expected.get(t, "do_custom_filter")
        if impl != exp:
            ctx.violation("dispatch", t, f"filter type {t!r} is dispatched to {impl}, the property's filter of that name is {exp}", impl, exp)
    for m in FilterType:
        if m.value not in expected:
            ctx.note(f"FilterType member {m.value} is not named by the property; not covered")


def run_engine_case(ctx: Ctx, E: Dict[str, Any], suite: str, ct: str, col: List[Any], ftype: str, p: Dict[str, Any], stream: str, engs: List[str],
                    reqs: List[Any], pend: List[Any]) -> None:  # fmt: skip
    from mloda.core.filter.single_filter import SingleFilter

    dom = in_oracle_domain(ct, ftype, p) and stream != "outside"
    expected = oracle_rows(col, ftype, p) if dom else None
    per_engine: Dict[str, Any] = {}
    for eng in engs:
        sf = SingleFilter("x", ftype, dict(p))
        try:
            data = native(eng, {"x": (ct, col)})
            impl: Dict[str, Any] = {"ok": ids_of(E[eng].do_filter(data, sf))}
        except Exception as e:  # noqa: BLE001 - every exception class is part of the observation
            impl = {"err": err_class(e)}
        per_engine[eng] = impl
        case = {"eng": eng, "ct": ct, "col": [None if x is MISSING else x for x in col], "missing": [k for k, x in enumerate(col) if x is MISSING], "ftype": ftype, "params": p}
        ctx.case(suite, case, nontrivial_col(col, p), engine=eng, ftype=ftype, stream=stream, ct=ct, outcome="ok" if "ok" in impl else impl["err"])
        if stream != "outside":
            reqs.append({"op": "C11.doFilter", **lean_eng(eng), "cts": {"x": ct_class(ct)}, "filter": jfilter("x", ftype, p), "cols": jcols({"x": (ct, col)})})
            pend.append((suite, case, impl))
        if expected is not None and impl != {"ok": expected}:
            fc = finding_class(eng, ct, col, ftype, p, impl, expected)
            ctx.violation(suite, case, f"{eng} engine, {ftype} filter {p}: returned {impl}, rows satisfying the filter are {expected}", impl, expected, finding_class=fc)
    if stream != "outside":
        # the specification model itself against the oracle (model-vs-property-text, no implementation involved)
        if expected is not None:
            reqs.append({"op": "C11.sat", "filter": jfilter("x", ftype, p), "cells": [jcell(x) for x in col]})
            pend.append(("sat_vs_oracle", {"ct": ct, "col": [None if x is MISSING else x for x in col], "ftype": ftype, "params": p}, {"ok": [k in expected for k in range(len(col))]}))


def flush(ctx: Ctx, reqs: List[Any], pend: List[Any]) -> None:
    outs = ctx.lean.batch(reqs)
    for (suite, case, impl), o in zip(pend, outs):
        if o.get("err") == "notmodelled":
            ctx.tag("not_modelled", suite)
            continue
        if impl != o:
            ctx.disagree(suite, case, impl, o)
    reqs.clear()
    pend.clear()


def suite_engine_fn(ctx: Ctx, scale: float = 1.0) -> None:
    E = engines()
    rng = ctx.rng
    reqs: List[Any] = []
    pend: List[Any] = []
    n = int(ctx.budget(2200, 16000) * scale)
    # fixed witnesses first (the known findings and the boundary cases of the property text)
    fixed = [
        ("int", [1, 3], "min", {"value": 2}, "valid"),  # regression: witness of the FIXED finding F-C11-pandas-featurename-keyerror (15de8bc)
        ("str", ["x", "y", "abc", "b"], "regex", {"value": "b"}, "valid"),
        ("int", [1, 2, None, 3, 2, 5], "range", {"min": 2, "max": 3, "max_exclusive": True}, "valid"),
        ("int", [1, 2, None, 3, 2, 5], "range", {"min": 2, "max": 3, "max_exclusive": False}, "valid"),
        ("int", [1, 2, None, 3, 2, 5], "range", {"min": 2, "max": 3}, "valid"),
        ("float", [1.0, 2.5, None, 3.0, 2.5, -0.5], "max", {"max": 2.5, "max_exclusive": True}, "valid"),
        ("float", [1.0, 2.5, None, 3.0, 2.5, -0.5], "max", {"value": 2.5}, "valid"),
        ("float", [1.0, 2.5, None, 3.0, 2.5, -0.5], "min", {"value": 2.5}, "valid"),
        ("float", [2.0, 2.5, None], "categorical_inclusion", {"values": [2.5, None]}, "valid"),
        ("str", ["a", None, "b"], "categorical_inclusion", {"values": [None]}, "valid"),
        ("str", ["a", None, "b"], "categorical_inclusion", {"values": []}, "valid"),
        ("str", ["a", None, "b"], "categorical_inclusion", {"values": ["b", None]}, "valid"),
        ("int", [1, 2], "equal", {"value": "a"}, "mismatch"),
        ("str", ["a", "b"], "min", {"value": 1}, "mismatch"),
    ]
    for ct, col, ft, p, stream in fixed:
        run_engine_case(ctx, E, "engine_fn", ct, col, ft, p, stream, ["py", "pa", "pd", "pdobj"], reqs, pend)
    for i in range(n):
        r = rng.random()
        stream = "valid" if r < 0.72 else ("mismatch" if r < 0.86 else "malformed")
        ct = rng.choice(["int", "float", "str"])
        col = gen_column(rng, ct, rng.choice([0, 1, 2, 3, 5, 8]))
        ft, p = gen_filter(rng, col, ct, stream)
        engs = ["py", "pa", "pd"] + (["pdobj"] if rng.random() < 0.25 else [])
        run_engine_case(ctx, E, "engine_fn", ct, col, ft, p, stream, engs, reqs, pend)
        if len(reqs) > 4000:
            flush(ctx, reqs, pend)
    # PythonDict only: mixed-type columns and rows lacking the key (the engine's `is not None` guards and what raises)
    for i in range(max(40, n // 6)):
        ct = "mixed"
        col = gen_column(rng, "mixed", rng.choice([1, 2, 3, 5]))
        col = [MISSING if (rng.random() < 0.1) else v for v in col]
        ft, p = gen_filter(rng, col, ct, rng.choice(["valid", "valid", "mismatch", "malformed"]))
        run_engine_case(ctx, E, "engine_fn", ct, col, ft, p, "mixed", ["py"], reqs, pend)
    # regex syntax outside the modelled fragment: oracle only
    for pat in PATTERNS_OUTSIDE:
        for _ in range(3):
            col = gen_column(rng, "str", 6)
            run_engine_case(ctx, E, "engine_fn", "str", col, "regex", {"value": pat}, "outside", ["py", "pa", "pd"], reqs, pend)
    flush(ctx, reqs, pend)


def suite_apply_fn(ctx: Ctx, scale: float = 1.0) -> None:
    """apply_single_filters on a real FeatureSet: several filters (a set), several columns, some not exposed"""
    from mloda.core.abstract_plugins.components.feature import Feature
    from mloda.core.abstract_plugins.components.feature_set import FeatureSet
    from mloda.core.filter.single_filter import SingleFilter

    E = engines()
    rng = ctx.rng
    reqs: List[Any] = []
    pend: List[Any] = []
    n = int(ctx.budget(700, 6000) * scale)
    for i in range(n):
        nrows = rng.choice([0, 2, 4, 6, 8])
        names = ["x", "y", "z"]
        cts = {c: rng.choice(["int", "float", "str"]) for c in names}
        cols = {c: (cts[c], gen_column(rng, cts[c], nrows)) for c in names}
        exposed = [c for c in names if rng.random() < 0.7]
        nf = rng.choice([0, 1, 2, 2, 3, 4])
        specs = []
        for _ in range(nf):
            c = rng.choice(names)
            stream = "valid" if rng.random() < 0.9 else rng.choice(["mismatch", "malformed"])
            ft, p = gen_filter(rng, cols[c][1], cts[c], stream, hashable=True)
            specs.append((c, ft, p, stream))
        none_filters = nf == 0 and rng.random() < 0.5
        for eng in ["py", "pa", rng.choice(["pd", "pd", "pd", "pdobj"])]:
            fs = FeatureSet()
            for c in exposed:
                fs.add(Feature(c))
            if not exposed:
                fs.add(Feature("other"))
            sfs = {SingleFilter(c, ft, dict(p)) for c, ft, p, _ in specs}
            if not none_filters:
                fs.add_filters(sfs)
            order = [] if fs.filters is None else list(fs.filters)  # the real iteration order of the set
            by = {id(s): s for s in order}
            try:
                impl: Dict[str, Any] = {"ok": ids_of(E[eng].apply_filters(native(eng, cols), fs))}
            except Exception as e:  # noqa: BLE001
                impl = {"err": err_class(e)}
            ordered_specs = [(str(s.filter_feature.name), s.filter_type, dict(s.parameter._raw)) for s in order]
            case = {"eng": eng, "cts": cts, "cols": {c: v for c, (_, v) in cols.items()}, "exposed": exposed, "filters": [[c, ft, p] for c, ft, p in ordered_specs], "filters_none": none_filters}
            nontriv = len(ordered_specs) >= 2 or any(c not in exposed for c, _, _ in ordered_specs)
            ctx.case("apply_fn", case, nontriv, engine=eng, nfilters=len(ordered_specs), unexposed=sum(1 for c, _, _ in ordered_specs if c not in exposed))
            reqs.append({"op": "C11.applyAll", **lean_eng(eng), "cts": {c: ct_class(t) for c, t in cts.items()}, "exposed": exposed if exposed else ["other"],
                         "filters": None if none_filters else [jfilter(c, ft, p) for c, ft, p in ordered_specs], "cols": jcols(cols)})  # fmt: skip
            pend.append(("apply_fn", case, impl))
            # oracle: conjunction of the applicable filters, order-free; unexposed filters leave the rows alone
            applicable = [(c, ft, p) for c, ft, p in ordered_specs if c in exposed]
            if all(in_oracle_domain(cts[c], ft, p) for c, ft, p in applicable):
                keep = set(range(nrows))
                for c, ft, p in applicable:
                    keep &= set(oracle_rows(cols[c][1], ft, p))
                expected = sorted(keep)
                if impl != {"ok": expected}:
                    fcs = {finding_class(eng, cts[c], cols[c][1], ft, p, impl if len(applicable) == 1 else _single(E, eng, cols, c, ft, p), oracle_rows(cols[c][1], ft, p)) for c, ft, p in applicable}
                    fcs.discard(None)
                    # a combination is covered only if one of its filters alone shows a known defect
                    ctx.violation("apply_fn", case, f"{eng}: filters {ordered_specs} with exposed columns {exposed}: returned {impl}, rows satisfying all applicable filters are {expected}", impl, expected,
                                  finding_class=(sorted(fcs)[0] if fcs else None))  # fmt: skip
        if len(reqs) > 3000:
            flush(ctx, reqs, pend)
    flush(ctx, reqs, pend)


def _single(E: Dict[str, Any], eng: str, cols: Dict[str, Tuple[str, List[Any]]], c: str, ft: str, p: Dict[str, Any]) -> Dict[str, Any]:
    from mloda.core.filter.single_filter import SingleFilter

    try:
        return {"ok": ids_of(E[eng].do_filter(native(eng, cols), SingleFilter(c, ft, dict(p))))}
    except Exception as e:  # noqa: BLE001
        return {"err": err_class(e)}


# ---- time --------------------------------------------------------------------------------------

EPOCH1 = dtm.datetime(1, 1, 1)


def wall_seconds(d: dtm.datetime) -> int:
    td = d.replace(tzinfo=None, microsecond=0) - EPOCH1
    return td.days * 86400 + td.seconds


def gen_aware(rng: Any, zones: List[str]) -> dtm.datetime:
    import zoneinfo

    kind = rng.random()
    if kind < 0.55:
        tz: Any = zoneinfo.ZoneInfo(rng.choice(zones))
    elif kind < 0.8:
        tz = dtm.timezone(dtm.timedelta(seconds=rng.choice([0, 3600, -3600, 19800, 20700, -16200, 45900, 86399, -86399, 1, -1, 3208])))
    else:
        tz = dtm.timezone.utc
    r = rng.random()
    if r < 0.08:
        year = rng.choice([1, 2, 9998, 9999])
    elif r < 0.2:
        year = rng.choice([1582, 1600, 1700, 1800, 1890, 1900, 1999, 2000, 2100, 2400, 400, 99, 999])
    else:
        year = rng.randint(1960, 2040)
    month = rng.randint(1, 12)
    if rng.random() < 0.25:
        month, day = rng.choice([(2, 28), (2, 29), (3, 1), (12, 31), (1, 1), (3, 31), (10, 31), (11, 1)])
    else:
        day = rng.randint(1, 28)
    if (month, day) == (2, 29) and not (year % 4 == 0 and (year % 100 != 0 or year % 400 == 0)):
        day = 28
    hour = rng.choice([0, 1, 2, 2, 3, 12, 23, rng.randint(0, 23)])
    us = rng.choice([0, 0, 1, 500000, 999999, rng.randint(0, 999999)])
    return dtm.datetime(year, month, day, hour, rng.choice([0, 30, 59, rng.randint(0, 59)]), rng.choice([0, 59, rng.randint(0, 59)]), us, tzinfo=tz, fold=rng.choice([0, 0, 1]))


def transitions(zones: List[str], rng: Any, k: int) -> List[dtm.datetime]:
    """wall-clock times inside DST folds and gaps of real zones (found by scanning a year hour by hour)"""
    import zoneinfo

    out: List[dtm.datetime] = []
    dst = [z for z in ["Europe/Berlin", "America/New_York", "Australia/Lord_Howe", "Pacific/Chatham", "America/St_Johns", "Europe/London", "America/Sao_Paulo", "Asia/Tehran",
                       "Africa/Casablanca", "Pacific/Apia", "America/Havana", "Asia/Kathmandu"] if z in zones]  # fmt: skip
    for zn in dst[: max(4, k // 2)] + rng.sample(zones, min(k, len(zones))):
        tz = zoneinfo.ZoneInfo(zn)
        year = rng.choice([1975, 1999, 2010, 2021, 2024])
        t = dtm.datetime(year, 1, 1, tzinfo=dtm.timezone.utc)
        prev = t.astimezone(tz).utcoffset()
        for h in range(0, 366 * 24):
            cur_t = t + dtm.timedelta(hours=h)
            off = cur_t.astimezone(tz).utcoffset()
            if off != prev:
                local = cur_t.astimezone(tz).replace(tzinfo=None)
                for delta in (-90, -30, 0, 30):
                    w = local + dtm.timedelta(minutes=delta)
                    for fold in (0, 1):
                        out.append(w.replace(tzinfo=tz, fold=fold, microsecond=rng.choice([0, 1])))
                prev = off
    return out


def time_model_req(d: dtm.datetime) -> Dict[str, Any]:
    off = d.utcoffset()
    assert off is not None
    return {"wall": wall_seconds(d), "micros": d.microsecond, "offset": off.days * 86400 + off.seconds}


def suite_time_fn(ctx: Ctx, scale: float = 1.0) -> None:
    import zoneinfo
    from mloda.core.filter.global_filter import GlobalFilter

    rng = ctx.rng
    zones = sorted(zoneinfo.available_timezones())
    gf = GlobalFilter()
    n = int(ctx.budget(3000, 30000) * scale)
    dts = transitions(zones, rng, 12 if ctx.quick else 80) + [gen_aware(rng, zones) for _ in range(n)]
    reqs, impls, cases = [], [], []
    for d in dts:
        off = d.utcoffset()
        if off is None or off.microseconds != 0:
            continue
        try:
            impl: Dict[str, Any] = {"ok": gf._check_and_convert_time_info(d)}
        except OverflowError:
            impl = {"err": "overflow"}
        except Exception as e:  # noqa: BLE001
            impl = {"err": type(e).__name__}
        case = {"wall": d.replace(tzinfo=None).isoformat(), "tz": str(d.tzinfo), "fold": d.fold, "offset": off.days * 86400 + off.seconds}
        folded = d.replace(fold=1 - d.fold).utcoffset() != off
        ctx.case("time_fn", case, folded or off.total_seconds() != 0, zone_kind=type(d.tzinfo).__name__, fold_sensitive=folded, outcome="ok" if "ok" in impl else impl["err"])
        reqs.append({"op": "C11.toUtcIso", **time_model_req(d)})
        impls.append(impl)
        cases.append(case)
        # oracle 1: the produced text denotes the same instant as the input, in UTC
        try:
            naive_utc: Any = d.replace(tzinfo=None) - off  # independent arithmetic: wall clock minus offset
        except OverflowError:
            naive_utc = None  # the instant is outside years 1..9999: no UTC rendering exists
        if naive_utc is None:
            if "ok" in impl:
                ctx.violation("time_fn", case, f"instant outside the representable range converted to {impl['ok']!r}", impl, "OverflowError")
        elif "ok" in impl:
            back = dtm.datetime.fromisoformat(impl["ok"])
            if back.utcoffset() != dtm.timedelta(0) or back.replace(tzinfo=None) != naive_utc:
                ctx.violation("time_fn", case, f"time bound {d!r} converted to {impl['ok']!r}, which is not the same instant in UTC ({naive_utc.isoformat()})", impl, naive_utc.isoformat())
            # oracle 2: whatever zone the same instant is given in, the text is the same
            other = rng.choice(zones)
            try:
                d2 = d.astimezone(zoneinfo.ZoneInfo(other))
                s2 = gf._check_and_convert_time_info(d2)
                if s2 != impl["ok"]:
                    ctx.violation("time_fn", {**case, "other_zone": other}, f"same instant given in {other} converts to {s2!r} instead of {impl['ok']!r}", s2, impl["ok"])
            except OverflowError:
                pass
        else:
            ctx.violation("time_fn", case, f"aware datetime rejected: {impl}", impl, naive_utc.isoformat())
    outs = ctx.lean.batch(reqs)
    for c, i, o in zip(cases, impls, outs):
        if i != o:
            ctx.disagree("time_fn", c, i, o)
    # naive datetimes are rejected (the documented contract: 'with timezone')
    for _ in range(5):
        d = gen_aware(rng, zones).replace(tzinfo=None)
        try:
            gf._check_and_convert_time_info(d)
            ctx.violation("time_fn", {"naive": d.isoformat()}, "a naive datetime was accepted as a time bound")
        except ValueError:
            pass
        ctx.case("time_fn", {"naive": d.isoformat()}, False, outcome="naive-rejected")
    # order: instants and produced texts are ordered alike (what makes the string range filter meaningful)
    oks = [(dtm.datetime.fromisoformat(i["ok"]), i["ok"]) for i in impls if "ok" in i]
    for _ in range(min(len(oks), 400)):
        (a, sa), (b, sb) = rng.choice(oks), rng.choice(oks)
        if (a < b) != (sa < sb) or (a == b) != (sa == sb):
            ctx.violation("time_fn", {"a": sa, "b": sb}, "order of the produced ISO texts differs from the order of the instants")


# ---- end to end --------------------------------------------------------------------------------


def make_e2e_group(name: str, eng: str, cols: Dict[str, Tuple[str, List[Any]]]) -> Any:
    """root group whose calculate_feature returns the requested columns in the framework's NATIVE type
    (the final filter runs on the raw calculate_feature output, before any transform)"""

    def calc(cls: Any, data: Any, features: Any) -> Any:
        want = [c for c in cols if c in features.get_all_names()]
        F.log_event(ev="calc", group=name, names=sorted(str(n) for n in features.get_all_names()), nfilters=None if features.filters is None else len(features.filters))
        return native(eng, {c: cols[c] for c in want})

    return F.make_group(F.uniq(name), root_data={c: [] for c in list(cols) + [ID]}, extra={"calculate_feature": classmethod(calc)})


E2E_FW = {"py": "py", "pa": "pa", "pd": "pd", "pdobj": "pd"}


def run_e2e(eng: str, g_cols: Dict[str, Tuple[str, List[Any]]], h_cols: Dict[str, Tuple[str, List[Any]]], request: List[str], filters: List[Tuple[str, str, Dict[str, Any]]],
            time_filter: Optional[Dict[str, Any]] = None) -> Dict[str, Any]:  # fmt: skip
    from mloda.user import mloda, GlobalFilter

    G = make_e2e_group("G11_", eng, g_cols)
    H = make_e2e_group("H11_", eng, h_cols)
    gf = GlobalFilter()
    try:
        for c, ft, p in filters:
            gf.add_filter(c, ft, dict(p))
    except TypeError as e:
        return {"err": "type", "at": "add_filter", "text": str(e)}
    if time_filter:
        gf.add_time_and_time_travel_filters(**time_filter)
    try:
        res = mloda.run_all(list(request), compute_frameworks={F.FW_SHORT[E2E_FW[eng]]}, plugin_collector=F.collector({G, H}), global_filter=gf)
    except Exception as e:  # noqa: BLE001
        s = repr(e) + str(e)
        if "KeyError" in s and "FeatureName object" in s:
            return {"err": "key"}
        if "ValueError" in s and "Data is empty or not in expected format" in s:
            return {"err": "value", "at": "empty"}
        if "NotImplementedError" in s and "Arrow" not in s:
            return {"err": "notimpl"}
        if "ValueError" in s and "Filter parameter" in s or "No valid filter parameter" in s:
            return {"err": "value"}
        return {"err": "type", "text": s[-300:]}
    out: Dict[str, Any] = {}
    for r in res:
        colsr = F.to_columns(r)
        key = "G" if "g_v" in colsr or "x" in colsr or "y" in colsr else ("H" if "h_w" in colsr else "?")
        out[key] = {c: v for c, v in colsr.items()}
    return {"ok": out}


def gen_domain_filter(rng: Any, col: List[Any], ct: str, hashable: bool) -> Tuple[str, Dict[str, Any]]:
    """a filter inside the oracle's domain (well-formed, parameter values of the column's type class)"""
    while True:
        ft, p = gen_filter(rng, col, ct, "valid", hashable=hashable)
        if in_oracle_domain(ct, ft, p):
            return ft, p


def suite_e2e(ctx: Ctx, scale: float = 1.0) -> None:
    rng = ctx.rng
    n = int(ctx.budget(110, 700) * scale)
    reqs: List[Any] = []
    pend: List[Any] = []
    fixed = [
        ("int", [1, 3], [("x", "min", {"value": 2})]),  # regression for the fixed pandas KeyError: must pass on every framework
        ("int", [1, 2, None, 3, 2, 5], [("x", "range", {"min": 2, "max": 3, "max_exclusive": True})]),
        ("str", ["x", "y", "abc", "b"], [("x", "regex", {"value": "b"})]),
        ("int", [1, 2, 3, 4], [("x", "min", {"value": 2}), ("x", "max", {"value": 3})]),
        ("str", ["A", "B", None, "C"], [("x", "categorical_inclusion", {"values": ["A", "B"]})]),
        ("str", ["A", "B", None, "C"], [("x", "categorical_inclusion", {"values": ("A", "B")})]),
        ("float", [2.0, 2.5, None], [("x", "categorical_inclusion", {"values": (2.5, None)})]),
        ("int", [1, 2, 3], [("x", "min", {"value": 5})]),
    ]
    plan: List[Any] = [(ct, col, fl, "both") for ct, col, fl in fixed]
    for _ in range(n):
        ct = rng.choice(["int", "float", "str"])
        col = gen_column(rng, ct, rng.choice([1, 3, 5, 8]))
        k = rng.choice([1, 1, 2, 3])
        fl = []
        for _ in range(k):
            ft, p = gen_domain_filter(rng, col, ct, rng.random() < 0.85)
            fl.append(("x", ft, p))
        if rng.random() < 0.8:
            # mostly keep at least one row (an empty result fails on PythonDict for an unrelated reason, see findings)
            for _try in range(6):
                keep = set(range(len(col)))
                for _, ft, p in fl:
                    keep &= set(oracle_rows(col, ft, p))
                if keep:
                    break
                fl = [("x",) + gen_domain_filter(rng, col, ct, True) for _ in range(rng.choice([1, 1, 2]))]
        plan.append((ct, col, fl, rng.choice(["both", "both", "g_only_y", "none_exposes", "h_too"])))
    for ct, col, fl, shape in plan:
        nrows = len(col)
        yct = rng.choice(["int", "str"])
        ycol = gen_column(rng, yct, nrows)
        g_cols = {"g_v": ("int", [10 * k for k in range(nrows)]), "x": (ct, col), "y": (yct, ycol)}
        hn = rng.choice([1, 3])
        h_cols = {"h_w": ("int", [7 * k for k in range(hn)])}
        filters = list(fl)
        if shape == "g_only_y":
            ft, p = gen_domain_filter(rng, ycol, yct, True)
            filters.append(("y", ft, p))
        if shape == "none_exposes":
            # the filter column exists in no group: every group is unaffected
            filters = [("zz", ft, p) for _, ft, p in filters]
        if shape == "h_too":
            # H has its own column of the same name: the filter applies to H's rows with H's values
            hx = gen_column(rng, ct, hn)
            h_cols["x"] = (ct, hx)
        request = ["g_v", "h_w"] + (["y"] if rng.random() < 0.3 else [])
        for eng in ["py", "pa", "pdobj", "pd"]:
            impl = run_e2e(eng, g_cols, h_cols, request, filters)
            case = {"eng": eng, "ct": ct, "x": col, "yct": yct, "y": ycol, "h": {c: v for c, (_, v) in h_cols.items()}, "filters": [[c, ft, p] for c, ft, p in filters], "shape": shape, "request": request}
            ctx.case("e2e", case, True, engine=eng, shape=shape, nfilters=len(filters), e2e_outcome="ok" if "ok" in impl else impl["err"])
            # oracle: G's rows = those satisfying every filter on a column G exposes; H likewise; groups not exposing the column unaffected
            def expect(cols: Dict[str, Tuple[str, List[Any]]], nr: int) -> List[int]:
                keep = set(range(nr))
                for c, ft, p in filters:
                    if c in cols:
                        keep &= set(oracle_rows(cols[c][1], ft, p))
                return sorted(keep)

            eg, eh = expect(g_cols, nrows), expect(h_cols, hn)
            exp = {"G": [10 * k for k in eg], "H": [7 * k for k in eh]}
            got: Any = impl
            if "ok" in impl:
                got = {"G": impl["ok"].get("G", {}).get("g_v"), "H": impl["ok"].get("H", {}).get("h_w")}
                extra_cols = sorted(set(impl["ok"].get("G", {})) - set(request)) + sorted(set(impl["ok"].get("H", {})) - set(request))
                if extra_cols:
                    ctx.note(f"e2e: unrequested columns in the result {extra_cols} (C03 territory, not judged here)")
            if got != exp:
                fcs = set()
                for c, ft, p in filters:
                    for cols_ in (g_cols, h_cols):
                        if c in cols_:
                            single = _single(engines(), eng, cols_, c, ft, p)
                            fcs.add(finding_class(eng, cols_[c][0], cols_[c][1], ft, p, single, oracle_rows(cols_[c][1], ft, p)))
                fcs.discard(None)
                if impl.get("at") == "add_filter" and "unhashable" in impl.get("text", "") and any(isinstance(p.get("values"), list) for _, _, p in filters):
                    fcs = {"globalfilter-list-values-unhashable"}
                elif eng == "py" and impl.get("at") == "empty" and ([] in (eg, eh)):
                    fcs = {"pythondict-empty-result-raises"}
                ctx.violation("e2e", case, f"run_all on {eng} with filters {filters}: returned {got}, expected {exp}", got, exp, finding_class=(sorted(fcs)[0] if fcs else None))
            # model: runGroup per group (any order: proved order independent in the oracle's domain)
            for key, cols_, nr, idcol, mult in (("G", g_cols, nrows, "g_v", 10), ("H", h_cols, hn, "h_w", 7)):
                reqs.append({"op": "C11.runGroup", **lean_eng(eng), "cts": {c: ct_class(t) for c, (t, _) in cols_.items()}, "requested": [c for c in request if c in cols_],
                             "supported": list(cols_.keys()), "filters": [jfilter(c, ft, p) for c, ft, p in filters], "cols": jcols(cols_)})  # fmt: skip
                if "ok" in impl:
                    v = impl["ok"].get(key, {}).get(idcol)
                    mimpl: Dict[str, Any] = {"ok": None if v is None else [x // mult for x in v]}
                else:
                    mimpl = {"err": impl["err"]}
                pend.append(("e2e", {**case, "group": key}, mimpl))
    # the model predicts per group; a run fails as a whole when one group fails -> compare group-wise only when ok, else any group erring alike
    outs = ctx.lean.batch(reqs)
    by_case: Dict[str, List[Tuple[Any, Any, Any]]] = {}
    for (suite, case, impl), o in zip(pend, outs):
        k = repr({kk: vv for kk, vv in case.items() if kk != "group"})
        by_case.setdefault(k, []).append((case, impl, o))
    for k, lst in by_case.items():
        impl_err = [i for _, i, _ in lst if "err" in i]
        if impl_err:
            model_errs = [o.get("err") for _, _, o in lst if "err" in o]
            if impl_err[0]["err"] not in model_errs:
                ctx.disagree("e2e", lst[0][0], impl_err[0], [o for _, _, o in lst])
        else:
            for case, impl, o in lst:
                if o.get("err") == "notmodelled":
                    continue
                if impl != o:
                    ctx.disagree("e2e", case, impl, o)


def iso_utc(d: dtm.datetime) -> str:
    return d.astimezone(dtm.timezone.utc).isoformat()


def suite_e2e_time(ctx: Ctx, scale: float = 1.0) -> None:
    """time filters through the public API: bounds given in arbitrary zones, column of UTC ISO texts"""
    import zoneinfo

    rng = ctx.rng
    zones = sorted(zoneinfo.available_timezones())
    n = int(ctx.budget(30, 200) * scale)
    for _ in range(n):
        base = dtm.datetime(rng.randint(1990, 2035), rng.randint(1, 12), rng.randint(1, 28), rng.randint(0, 23), rng.choice([0, 30]), 0, tzinfo=dtm.timezone.utc)
        step = rng.choice([1, 60, 1800, 3600, 86400])
        nrows = rng.choice([4, 6, 9])
        instants = [base + dtm.timedelta(seconds=step * k, microseconds=rng.choice([0, 0, 0, 1, 500000])) for k in range(nrows)]
        rng.shuffle(instants)
        col: List[Any] = [iso_utc(t) for t in instants]
        if rng.random() < 0.3:
            j = rng.randrange(nrows)
            col[j] = None
        lo_i, hi_i = sorted([rng.randrange(nrows), rng.randrange(nrows)])
        srt = sorted(instants)
        ev_from, ev_to = srt[lo_i].replace(microsecond=srt[lo_i].microsecond), srt[hi_i]  # bounds ON data points (boundary inclusivity)
        excl = rng.choice([True, False])
        # optionally a validity (time travel) range on a second column
        with_valid = rng.random() < 0.4
        vinst = [base + dtm.timedelta(seconds=step * rng.randrange(nrows)) for _ in range(nrows)]
        vcol: List[Any] = [iso_utc(t) for t in vinst]
        vs = sorted(vinst)
        v_from, v_to = vs[rng.randrange(nrows) // 2], vs[-1 - rng.randrange(nrows) // 3]
        if v_from > v_to:
            v_from, v_to = v_to, v_from
        for eng in ["py", "pa", "pdobj", "pd"]:
            z1, z2, z3, z4 = (zoneinfo.ZoneInfo(rng.choice(zones)) for _ in range(4))
            tf: Dict[str, Any] = {"event_from": ev_from.astimezone(z1), "event_to": ev_to.astimezone(z2), "max_exclusive": excl}
            g_cols = {"g_v": ("int", [10 * k for k in range(nrows)]), "reference_time": ("str", col)}
            if with_valid:
                tf.update({"valid_from": v_from.astimezone(z3), "valid_to": v_to.astimezone(z4)})
                g_cols["time_travel_filter"] = ("str", vcol)
            h_cols = {"h_w": ("int", [0, 7])}
            impl = run_e2e(eng, g_cols, h_cols, ["g_v", "h_w"], [], time_filter=tf)
            case = {"eng": eng, "col": col, "from": tf["event_from"].isoformat(), "from_zone": str(z1), "to": tf["event_to"].isoformat(), "to_zone": str(z2), "max_exclusive": excl}
            if with_valid:
                case.update({"valid_col": vcol, "valid_from": tf["valid_from"].isoformat(), "valid_to": tf["valid_to"].isoformat()})
            ctx.case("e2e_time", case, True, engine=eng, time_travel=with_valid, e2e_outcome="ok" if "ok" in impl else impl["err"])
            # oracle on INSTANTS (not on texts): from <= t, and t < to or t <= to as flagged; null never satisfies
            keep = []
            for k, s_ in enumerate(col):
                if s_ is None:
                    continue
                t = dtm.datetime.fromisoformat(s_)
                if not (ev_from <= t and (t < ev_to if excl else t <= ev_to)):
                    continue
                if with_valid and not (v_from <= vinst[k] and (vinst[k] < v_to if excl else vinst[k] <= v_to)):
                    continue
                keep.append(k)
            exp = {"G": [10 * k for k in keep], "H": [0, 7]}
            got: Any = impl
            if "ok" in impl:
                got = {"G": impl["ok"].get("G", {}).get("g_v"), "H": impl["ok"].get("H", {}).get("h_w")}
            if got != exp:
                fc = None
                if eng == "py" and impl.get("at") == "empty" and not keep:
                    fc = "pythondict-empty-result-raises"
                ctx.violation("e2e_time", case, f"time filter [{case['from']} .. {case['to']}{')' if excl else ']'}{' + validity range' if with_valid else ''} on {eng}: returned {got}, expected {exp}", got, exp, finding_class=fc)


# --------------------------------------------------------------------------------------


def run(ctx: Ctx, scale: float = 1.0) -> None:
    ctx.extra["rule"] = (
        "case unit (column, filters, engine); non-trivial = the column has a value equal to a bound / listed category, a null or a duplicate "
        "(engine_fn), >=2 filters or an unexposed filter column (apply_fn), a non-UTC or fold-sensitive datetime (time_fn), every end-to-end run"
    )
    suite_dispatch(ctx)
    suite_engine_fn(ctx, scale)
    suite_apply_fn(ctx, scale)
    suite_time_fn(ctx, scale)
    suite_e2e(ctx, scale)
    suite_e2e_time(ctx, scale)


def search(ctx: Ctx, broken: List[str]) -> None:
    run(ctx, 0.25)


def replay(ctx: Ctx, body: Dict[str, Any]) -> None:
    """re-execute the stored case against the current tree (engine-level and e2e cases), then the normal run"""
    case = body.get("case") or {}
    suite = body.get("suite")
    if suite == "engine_fn" and isinstance(case, dict) and "ftype" in case:
        col = [MISSING if k in case.get("missing", []) else v for k, v in enumerate(case["col"])]
        p = {k: (tuple(v) if False else v) for k, v in case["params"].items()}
        reqs: List[Any] = []
        pend: List[Any] = []
        run_engine_case(ctx, engines(), "engine_fn", case["ct"], col, case["ftype"], p, "valid", [case["eng"]], reqs, pend)
        flush(ctx, reqs, pend)
        return
    run(ctx)
