"""C14 - moving data between compute frameworks preserves it.

Suites
  registry   the real ComputeFrameworkTransformer (fresh instance, its real dict order) vs Gen/Transformers and the model:
             get_transformation_chain on all ordered pairs (incl. equal and foreign types), identify_orientation of every
             registered transformer on all ordered pairs
  synthetic  synthetic registries (recording transformer classes over fake types, incl. maps that violate the registration
             invariant and `add` conflicts) through the REAL add / get_transformation_chain / TransformFrameworkStep.transform /
             ComputeFramework.transform / convert_flyserver_data_back vs the model's symbolic hop trace
  hops       generated tables x ordered pairs of installed frameworks x {direct hop, TransformFrameworkStep.transform (direct and
             chained), ComputeFramework.transform, round trip, flight upload/download}: hop sequence and result type vs the
             model; values vs the Lean relation `≈ₜ` and vs the oracle written from the property text
  illtyped   every installed hop applied to a value of a wrong run-time type raises (assumption of the model)
  e2e        run_all where a consumer group lives on another framework than its producer (SYNC, THREADING, a few
             MULTIPROCESSING): what the consumer receives vs what the producer returned
"""
from __future__ import annotations

import itertools
import json
import math
import multiprocessing
import os
import random
import tempfile
import threading
import time
from typing import Any, Dict, Iterable, List, Optional, Sequence, Set, Tuple
from uuid import uuid4

from harness.core import Ctx
from harness import fgfactory as F

ASSUMPTIONS = [
    "value preservation of each installed hop (pa.Table.from_pandas / Table.to_pandas / Table.from_pylist / Table.to_pylist as "
    "wrapped by PandasPyArrowTransformer and PythonDictPyArrowTransformer) is an assumption about pandas 3.0.6 / pyarrow: Lean "
    "proves only that mloda's registry, chain and orientation logic composes hops correctly (HopPreserves => chain preserves); "
    "the hops themselves are checked here by differential testing only",
    "a hop applied to a value of the wrong run-time type raises (checked by suite illtyped)",
    "the Arrow Flight store returns an uploaded Arrow table unchanged (observed in the flight suite)",
    "tables are column-typed (ints, floats, strings, booleans, nulls); python ints beyond int64, mixed-type columns, duplicate "
    "column names and non-default pandas indexes other than the generated ones are outside the generated space",
]

PA, PD, PY = "pyarrow.lib.Table", "pandas.DataFrame", "builtins.list"
FW_OF_TYPE = {PA: "pa", PD: "pd", PY: "py"}
TYPE_OF_FW = {v: k for k, v in FW_OF_TYPE.items()}
TWO53 = 2**53

ZERO_ROWS_PY = "zero-row-table-through-python-dict-loses-columns"
BIGINT_PD = "nullable-int-column-beyond-2^53-through-pandas"
PD_INDEX = "pandas-non-default-index-becomes-column"
FLIGHT_TFS = "multiprocessing-transform-step-from-non-arrow-producer"


def tname(t: Any) -> str:
    return f"{t.__module__}.{t.__qualname__}"


# --------------------------------------------------------------------------------------
# normalisation to typed cells (own logic: distinguishes -0.0/0.0, int/float, null/NaN)


def cell(v: Any) -> List[Any]:
    import numpy as np
    import pandas as pd

    if v is None or v is pd.NA or v is pd.NaT:
        return ["null"]
    if isinstance(v, (bool, np.bool_)):
        return ["bool", bool(v)]
    if isinstance(v, (int, np.integer)):
        return ["int", str(int(v))]
    if isinstance(v, (float, np.floating)):
        f = float(v)
        if math.isnan(f):
            return ["nan"]
        if math.isinf(f):
            return ["inf"] if f > 0 else ["ninf"]
        if f == 0.0:
            return ["negzero"] if math.copysign(1.0, f) < 0 else ["flt", "0", "1"]
        n, d = f.as_integer_ratio()
        return ["flt", str(n), str(d)]
    if isinstance(v, str):
        return ["str", v]
    return ["other", repr(v)[:80]]


def norm_table(data: Any) -> Optional[List[Dict[str, Any]]]:
    import pandas as pd
    import pyarrow as pa

    if data is None:
        return None
    if isinstance(data, pa.Table):
        return [{"name": str(c), "cells": [cell(v) for v in data.column(i).to_pylist()]} for i, c in enumerate(data.column_names)]
    if isinstance(data, pd.DataFrame):
        return [{"name": str(c), "cells": [cell(v) for v in data.iloc[:, i].tolist()]} for i, c in enumerate(data.columns)]
    if isinstance(data, list):
        if not data:
            return []
        cols = list(data[0].keys())
        return [{"name": str(c), "cells": [cell(r.get(c)) for r in data]} for c in cols]
    return [{"name": "?", "cells": [["other", type(data).__name__]]}]


# --------------------------------------------------------------------------------------
# oracle from the property text


def nullish(c: List[Any]) -> bool:
    return c[0] in ("null", "nan")


def nullable_int_col(cells: List[List[Any]]) -> bool:
    return all(c[0] == "int" or nullish(c) for c in cells) and any(nullish(c) for c in cells)


def num_value(c: List[Any]) -> Optional[Tuple[int, int]]:
    if c[0] == "int":
        return (int(c[1]), 1)
    if c[0] == "flt":
        return (int(c[1]), int(c[2]))
    return None


def oracle_preserved(src: Optional[List[Dict[str, Any]]], dst: Optional[List[Dict[str, Any]]]) -> List[str]:
    """column names, number and order of rows, every value; only null/NaN and the widening of a nullable integer column
    are tolerated."""
    if dst is None:
        return ["result is None"]
    assert src is not None
    bad: List[str] = []
    sn, dn = [c["name"] for c in src], [c["name"] for c in dst]
    if sn != dn:
        return [f"column names {dn} instead of {sn}"]
    for cs, cd in zip(src, dst):
        a, b = cs["cells"], cd["cells"]
        if len(a) != len(b):
            bad.append(f"column {cs['name']}: {len(b)} rows instead of {len(a)}")
            continue
        widen_ok = nullable_int_col(a) or nullable_int_col(b)
        for i, (x, y) in enumerate(zip(a, b)):
            if x == y:
                continue
            if nullish(x) and nullish(y):
                continue
            vx, vy = num_value(x), num_value(y)
            if vx is not None and vy is not None and x[0] != y[0] and widen_ok and vx[0] * vy[1] == vy[0] * vx[1]:
                continue
            bad.append(f"column {cs['name']} row {i}: {y} instead of {x}")
            break
    return bad


# --------------------------------------------------------------------------------------
# generated tables

INTS = [0, 1, -1, 7, -42, 2**31, -(2**31) - 1, TWO53, TWO53 + 1, -(TWO53 + 1), 2**62 + 1, 2**63 - 1, -(2**63)]
SMALL_INTS = [0, 1, -1, 7, -42, 1000]
FLOATS = [0.0, -0.0, 1.5, -0.25, 3.0, 1e308, -1e308, 5e-324, float(TWO53 + 2), float("inf"), float("-inf"), float("nan"), 0.1]
STRS = ["", "a", "abc", " x ", "ünï©ødé", "漢字 ✓", "None", "nan", "0", "a\nb", "\u0000z"[1:], "é" * 3]
BOOLS = [True, False]


def gen_table(ctx: Ctx, force: Optional[str] = None) -> Dict[str, Any]:
    rng = ctx.rng
    nrows = rng.choice([0, 0, 1, 1, 2, 3, 3, 4, 5])
    ncols = rng.randint(1, 4)
    cols = []
    for i in range(ncols):
        kind = rng.choice(["int", "int", "float", "float", "str", "bool", "bigint", "allnull"])
        pnull = rng.choice([0.0, 0.0, 0.3, 0.5])
        vals: List[Any] = []
        for _ in range(nrows):
            if kind == "allnull" or rng.random() < pnull:
                vals.append(None)
            elif kind == "int":
                vals.append(rng.choice(SMALL_INTS + [2**31, -(2**31) - 1]))
            elif kind == "bigint":
                vals.append(rng.choice(INTS))
            elif kind == "float":
                vals.append(rng.choice(FLOATS))
            elif kind == "str":
                vals.append(rng.choice(STRS))
            else:
                vals.append(rng.choice(BOOLS))
        cols.append({"name": rng.choice(["a", "b", "c", "x y", "ü", "col"]) + str(i), "kind": "int" if kind == "bigint" else kind, "vals": vals})
    # PythonDict rows are dicts: the same key set may come in a different insertion order in every row (rows assembled by
    # different code paths); `py_perm` seeds a per-row permutation of the key order
    py_perm = rng.randint(1, 10**6) if (ncols >= 2 and nrows >= 2 and rng.random() < 0.6) else None
    return {"cols": cols, "nrows": nrows, "pd_nullable": rng.random() < 0.25, "pd_index": rng.random() < 0.08 and nrows > 0, "py_perm": py_perm}


def enc_vals(vals: List[Any]) -> List[Any]:
    return [("f:" + v.hex()) if isinstance(v, float) else v for v in vals]


def dec_vals(vals: List[Any]) -> List[Any]:
    return [float.fromhex(v[2:]) if isinstance(v, str) and v.startswith("f:") else v for v in vals]


def encode_spec(spec: Dict[str, Any]) -> Dict[str, Any]:
    """JSON-safe (floats as hex strings; plain strings never start with 'f:' in the generated space)."""
    return dict(spec, cols=[dict(c, vals=enc_vals(c["vals"])) for c in spec["cols"]])


def decode_spec(spec: Dict[str, Any]) -> Dict[str, Any]:
    return dict(spec, cols=[dict(c, vals=dec_vals(c["vals"])) for c in spec["cols"]])


def build_native(spec: Dict[str, Any], fw: str) -> Any:
    import pandas as pd
    import pyarrow as pa

    types = {"int": pa.int64(), "float": pa.float64(), "str": pa.string(), "bool": pa.bool_(), "allnull": pa.null()}
    cols = spec["cols"]
    if fw == "pa":
        return pa.table({c["name"]: pa.array(c["vals"], type=types[c["kind"]]) for c in cols})
    if fw == "pd":
        df = pd.DataFrame({c["name"]: pd.Series(c["vals"], dtype=object if (c["kind"] in ("int", "bool", "allnull") and any(v is None for v in c["vals"])) else None) for c in cols})
        if not cols:
            df = pd.DataFrame()
        # let pandas pick its natural dtypes for columns without nulls, object for nullable int/bool (keeps them exact),
        # optionally its nullable extension dtypes
        if spec.get("pd_nullable"):
            df = df.convert_dtypes()
        if spec.get("pd_index"):
            df.index = [10 + 2 * i for i in range(len(df))]
        return df
    if fw == "py":
        n = spec["nrows"]
        rows = []
        prng = random.Random(spec["py_perm"]) if spec.get("py_perm") else None
        for i in range(n):
            order = list(cols)
            if prng is not None and i > 0:
                prng.shuffle(order)  # row 0 keeps the canonical order (it names the columns), later rows are permuted
            rows.append({c["name"]: c["vals"][i] for c in order})
        return rows
    raise ValueError(fw)


# --------------------------------------------------------------------------------------
# the real objects


def load_plugins() -> None:
    import mloda_plugins.compute_framework.base_implementations.pandas.pandaspyarrowtransformer  # noqa: F401
    import mloda_plugins.compute_framework.base_implementations.python_dict.python_dict_pyarrow_transformer  # noqa: F401


def real_registry() -> Any:
    from mloda.core.abstract_plugins.components.framework_transformer.cfw_transformer import ComputeFrameworkTransformer

    load_plugins()
    return ComputeFrameworkTransformer()


def reg_json(reg: Any) -> Dict[str, Any]:
    """registry of a real ComputeFrameworkTransformer in its real dict order, for the model"""
    import pyarrow as pa

    items = [[tname(a), tname(b), t.__name__] for (a, b), t in reg.transformer_map.items()]
    trs = {}
    for t in reg.transformer_map.values():
        trs[t.__name__] = [t.__name__, tname(t.framework()), tname(t.other_framework())]
    return {"reg": items, "trs": list(trs.values()), "pa": tname(pa.Table)}


class HopRecorder:
    """Harness-side observation: logs every call of a transformer's two conversion functions (class attribute patched in
    this process only, restored on exit)."""

    def __init__(self, classes: Iterable[Any]) -> None:
        self.classes = list(classes)
        self.calls: List[str] = []
        self.saved: List[Tuple[Any, str, Any]] = []

    def __enter__(self) -> "HopRecorder":
        for cls in self.classes:
            for attr, dirn in (("transform_fw_to_other_fw", "left"), ("transform_other_fw_to_fw", "right")):
                orig = cls.__dict__[attr]
                fn = orig.__func__
                self.saved.append((cls, attr, orig))

                def mk(fn: Any, cls: Any, dirn: str) -> Any:
                    def rec(c: Any, data: Any, *a: Any, **kw: Any) -> Any:
                        self.calls.append(f"{cls.__name__}:{dirn}")
                        return fn(c, data, *a, **kw)

                    return classmethod(rec)

                setattr(cls, attr, mk(fn, cls, dirn))
        HopRecorder.ACTIVE.append(self)
        return self

    def __exit__(self, *a: Any) -> None:
        for cls, attr, orig in self.saved:
            setattr(cls, attr, orig)
        if self in HopRecorder.ACTIVE:
            HopRecorder.ACTIVE.remove(self)

    ACTIVE: List["HopRecorder"] = []

    @staticmethod
    def restore_all() -> None:
        """undo the patches of recorders whose thread never came back (a hung flight call)"""
        for r in list(HopRecorder.ACTIVE)[::-1]:
            r.__exit__()


def err_class(e: BaseException) -> str:
    s = str(e)
    if isinstance(e, KeyError) and "No transformation path" in s:
        return "noPath"
    if isinstance(e, UnboundLocalError):
        return "unboundTarget"
    if isinstance(e, ValueError) and "are the same" in s:
        return "sameFramework"
    if isinstance(e, ValueError) and "How did you get here? Framework" in s and "not supported by" in s:
        return "noOrientation"
    if isinstance(e, ValueError) and "not supported by" in s:
        return "unsupported"
    if isinstance(e, ValueError) and "is not supported. This can be created" in s:
        return "unsupported"
    return "hop:" + type(e).__name__


def mk_tfs(from_fw: Any, to_fw: Any) -> Any:
    from mloda.core.core.step.transform_frame_work_step import TransformFrameworkStep

    return TransformFrameworkStep(from_fw, to_fw, set(), object, object)  # type: ignore[arg-type]


def mk_cfw(fw_cls: Any) -> Any:
    from mloda.core.abstract_plugins.components.parallelization_modes import ParallelizationMode

    return fw_cls(ParallelizationMode.SYNC, frozenset(), uuid4())


# --------------------------------------------------------------------------------------
# suite: registry


def suite_registry(ctx: Ctx) -> None:
    import pyarrow as pa

    reg = real_registry()
    rj = reg_json(reg)
    inst = ctx.lean.batch([{"op": "C14.installed"}])[0]
    ctx.case("registry", {"map": sorted(rj["reg"])}, True)
    if sorted(inst["reg"]) != sorted(rj["reg"]) or sorted(inst["trs"]) != sorted(rj["trs"]) or inst["pa"] != rj["pa"]:
        ctx.disagree("registry", "Gen/Transformers vs fresh registry", rj, inst)
    fws = {n: t for n, t in ((c.__name__, tname(c.expected_data_framework())) for c in F.BASE_FRAMEWORKS.values())}
    if sorted(map(list, fws.items())) != sorted(inst["fws"]):
        ctx.disagree("registry", "compute frameworks", fws, inst["fws"])
    types = {tname(t): t for t in {a for (a, b) in reg.transformer_map} | {dict, pa.Table}}
    names = sorted(types)
    reqs, impls = [], []
    for a in names:
        for b in names:
            ch = reg.get_transformation_chain(types[a], types[b])
            impls.append(None if ch is None else [c.__name__ for c in ch])
            reqs.append({"op": "C14.chain", **rj, "from": a, "to": b})
    for t in set(reg.transformer_map.values()):
        for a in names:
            for b in names:
                try:
                    o = t.identify_orientation(types[a], types[b])
                except ValueError as e:
                    o = "err:" + err_class(e)
                impls.append(o)
                reqs.append({"op": "C14.orient", "tr": [t.__name__, tname(t.framework()), tname(t.other_framework())], "f": a, "o": b})
    outs = ctx.lean.batch(reqs)
    for r, i, o in zip(reqs, impls, outs):
        ctx.case("registry", {k: r[k] for k in r if k not in ("reg", "trs")}, i is not None)
        if i != o:
            ctx.disagree("registry", {k: r[k] for k in r if k not in ("reg", "trs")}, i, o)
    # oracle: every ordered pair of distinct installed frameworks is connected (the property quantifies over all of them)
    for a, b in itertools.permutations(sorted(set(fws.values())), 2):
        if reg.get_transformation_chain(types[a], types[b]) is None:
            ctx.violation("registry", [a, b], f"no transformation path between installed frameworks {a} -> {b}")


# --------------------------------------------------------------------------------------
# suite: synthetic registries (the glue logic on arbitrary registries, incl. malformed ones)

_SYN_ON = {"on": False}
_SYN_CALLS: List[str] = []


def make_syn_types(n: int) -> List[type]:
    return [type(f"SynT{i}", (), {}) for i in range(n)]


def make_syn_transformer(name: str, a: type, b: type) -> Any:
    """A BaseTransformer subclass over fake types.  It reports its frameworks as importable only while a synthetic case is
    running, so it never enters a registry built elsewhere in this process."""
    from mloda.core.abstract_plugins.components.framework_transformer.base_transformer import BaseTransformer

    def import_fw(cls: Any) -> None:
        if not _SYN_ON["on"]:
            raise ImportError("synthetic transformer outside a synthetic case")

    def fw_to_other(cls: Any, data: Any) -> Any:
        _SYN_CALLS.append(f"{name}:left")
        if type(data) is not a:
            raise TypeError("illTyped")
        return b()

    def other_to_fw(cls: Any, data: Any, conn: Any = None) -> Any:
        _SYN_CALLS.append(f"{name}:right")
        if type(data) is not b:
            raise TypeError("illTyped")
        return a()

    return type(
        name,
        (BaseTransformer,),
        {
            "framework": classmethod(lambda cls: a),
            "other_framework": classmethod(lambda cls: b),
            "import_fw": classmethod(import_fw),
            "import_other_fw": classmethod(lambda cls: None),
            "transform_fw_to_other_fw": classmethod(fw_to_other),
            "transform_other_fw_to_fw": classmethod(other_to_fw),
        },
    )


def suite_synthetic(ctx: Ctx) -> None:
    from mloda.core.abstract_plugins.components.framework_transformer.cfw_transformer import ComputeFrameworkTransformer
    from mloda.core.core.step.transform_frame_work_step import TransformFrameworkStep
    import mloda.core.abstract_plugins.components.framework_transformer.cfw_transformer as cfwmod
    from mloda.core.abstract_plugins.compute_framework import ComputeFramework

    n_cases = ctx.budget(250, 5000)
    types = make_syn_types(4)
    tn = {t: t.__name__ for t in types}
    # a pool of transformer classes over the fake types (class creation is global: keep the pool fixed and small)
    pool = []
    k = 0
    for a, b in itertools.permutations(types, 2):
        pool.append(make_syn_transformer(f"Syn{k}", a, b))
        k += 1
    # one synthetic compute-framework class per fake type (ComputeFramework subclasses are global: create them once)
    syn_cfw = {
        exp: type("SynCfw", (ComputeFramework,), {"expected_data_framework": classmethod(lambda cls, exp=exp: exp), "is_available": staticmethod(lambda: False)})
        for exp in types
    }
    reqs: List[Dict[str, Any]] = []
    impls: List[Any] = []
    metas: List[Any] = []
    saved_pa = cfwmod.pa
    try:
        for ci in range(n_cases):
            rng = ctx.rng
            pa_t = rng.choice(types)
            chosen = rng.sample(pool, rng.randint(1, 4))
            reg = ComputeFrameworkTransformer.__new__(ComputeFrameworkTransformer)
            reg.transformer_map = {}
            adds = []
            init_err = None
            for t in chosen:
                imp = rng.random() < 0.9
                adds.append({"tr": [t.__name__, tn[t.framework()], tn[t.other_framework()]], "imp": imp})
                _SYN_ON["on"] = imp  # importable only during this very add()
                try:
                    reg.add(t)
                except ValueError:
                    init_err = "conflict"
                    break
                finally:
                    _SYN_ON["on"] = False
            items = [[tn[a], tn[b], t.__name__] for (a, b), t in reg.transformer_map.items()]
            reqs.append({"op": "C14.init", "adds": adds})
            impls.append({"err": "conflict"} if init_err else {"items": items})
            metas.append(("init", adds))
            if init_err:
                continue
            malformed = rng.random() < 0.15 and reg.transformer_map
            if malformed:
                # violate the registration invariant by hand: an entry under a key its transformer does not connect
                a, b = rng.sample(types, 2)
                reg.transformer_map[(a, b)] = rng.choice(list(reg.transformer_map.values()))
                items = [[tn[x], tn[y], t.__name__] for (x, y), t in reg.transformer_map.items()]
            trs = {t.__name__: [t.__name__, tn[t.framework()], tn[t.other_framework()]] for t in reg.transformer_map.values()}
            rj = {"reg": items, "trs": list(trs.values()), "pa": tn[pa_t]}

            class _FakePa:  # the module-level `pa` of cfw_transformer: only `.Table` is used
                Table = pa_t

            cfwmod.pa = _FakePa
            for fa, fb in itertools.product(types, repeat=2):
                ch = reg.get_transformation_chain(fa, fb)
                reqs.append({"op": "C14.chain", **rj, "from": tn[fa], "to": tn[fb]})
                impls.append(None if ch is None else [c.__name__ for c in ch])
                metas.append(("chain", malformed))
                # the real loop
                mkfw = lambda t: type("SynFw", (), {"expected_data_framework": classmethod(lambda cls: t)})  # noqa: E731
                tfs = TransformFrameworkStep(mkfw(fa), mkfw(fb), set(), object, object)  # type: ignore[arg-type]
                tfs.transformer = reg
                dty = fa if rng.random() < 0.85 else rng.choice(types)
                _SYN_CALLS.clear()
                cfw_stub = type("C", (), {"framework_connection_object": None})()
                try:
                    out = tfs.transform(cfw_stub, dty(), set())
                    impl: Dict[str, Any] = {"ty": tn[type(out)], "hops": list(_SYN_CALLS)}
                except Exception as e:  # noqa: BLE001
                    ec = err_class(e)
                    impl = {"err": "illTyped" if (isinstance(e, TypeError) and str(e) == "illTyped") else ec}
                reqs.append({"op": "C14.tfs", **rj, "from": tn[fa], "to": tn[fb], "dty": tn[dty]})
                impls.append(impl)
                metas.append(("tfs", malformed))
            cfwmod.pa = saved_pa
            # ComputeFramework.transform / convert_flyserver_data_back on a synthetic framework class
            for exp in types:
                CfwCls = syn_cfw[exp]
                cfw = CfwCls.__new__(CfwCls)
                cfw.transformer = reg
                cfw.framework_connection_object = None
                dty = rng.choice(types)
                _SYN_CALLS.clear()
                try:
                    out = cfw.transform(dty(), set())
                    impl = {"ty": tn[type(out)], "hops": list(_SYN_CALLS)}
                except Exception as e:  # noqa: BLE001
                    impl = {"err": "illTyped" if (isinstance(e, TypeError) and str(e) == "illTyped") else err_class(e)}
                reqs.append({"op": "C14.cfw", **rj, "expected": tn[exp], "dty": tn[dty]})
                impls.append(impl)
                metas.append(("cfw", malformed))
    finally:
        _SYN_ON["on"] = False
        cfwmod.pa = saved_pa
    outs = ctx.lean.batch(reqs)
    for r, i, o, m in zip(reqs, impls, outs, metas):
        brief = {k: r[k] for k in r if k not in ("trs",)}
        ctx.case("synthetic", brief, m[0] != "chain" or i is not None, syn_op=m[0])
        if i != o:
            ctx.disagree("synthetic", brief, i, o)
        # oracle: in a registry built by add() (not hand-malformed), a value of the source type never meets a hop of the
        # wrong type and the result has the target type
        if m[0] == "tfs" and not m[1] and r["dty"] == r["from"] and isinstance(i, dict):
            if i.get("err") in ("illTyped", "unboundTarget", "noOrientation", "unsupported", "sameFramework"):
                ctx.violation("synthetic", brief, f"TransformFrameworkStep.transform fails with {i['err']} on a well-formed registry", i)
            if "ty" in i and i["ty"] != r["to"]:
                ctx.violation("synthetic", brief, f"TransformFrameworkStep.transform returned a {i['ty']}, target is {r['to']}", i)


# --------------------------------------------------------------------------------------
# suite: hops (values)


def classify(case: Dict[str, Any], src_norm: Any, bad: List[str]) -> Optional[str]:
    """narrow input classes of the known findings"""
    spec = case["table"]
    through = set(case["through"])
    if spec["nrows"] == 0 and "py" in through and any("column names" in b for b in bad):
        return ZERO_ROWS_PY
    if "pd" in through:
        # every reported cell must lie in a nullable integer column holding a value beyond 2^53
        q = {c["name"] for c in (src_norm or []) if nullable_int_col(c["cells"]) and any(x[0] == "int" and abs(int(x[1])) > TWO53 for x in c["cells"])}
        if q and bad and all(any(b.startswith(f"column {n} row ") for n in q) for b in bad):
            return BIGINT_PD
    if case["src"] == "pd" and spec.get("pd_index") and any("__index_level_0__" in b for b in bad):
        return PD_INDEX
    return None


def run_path(case: Dict[str, Any], native: Any) -> Dict[str, Any]:
    """Execute one path on the real code; returns {"out": native result or None, "err":..., "hops": [...], "ty":...}."""
    from mloda.core.abstract_plugins.components.framework_transformer.cfw_transformer import ComputeFrameworkTransformer
    from mloda_plugins.compute_framework.base_implementations.pandas.pandaspyarrowtransformer import PandasPyArrowTransformer
    from mloda_plugins.compute_framework.base_implementations.python_dict.python_dict_pyarrow_transformer import PythonDictPyArrowTransformer

    src, dst, path = F.FW_SHORT[case["src"]], F.FW_SHORT[case["dst"]], case["path"]
    ts, td = src.expected_data_framework(), dst.expected_data_framework()
    with HopRecorder([PandasPyArrowTransformer, PythonDictPyArrowTransformer]) as rec:
        try:
            if path == "hop":
                reg = ComputeFrameworkTransformer()
                out = reg.transformer_map[(ts, td)].transform(ts, td, native, None)
            elif path == "tfs":
                out = mk_tfs(src, dst).transform(mk_cfw(dst), native, set())
            elif path == "cfw":
                # the anchored base implementation (the plugins' overrides call it first and then add framework-specific
                # fallbacks for dicts / series / arrays, which are not table-to-table conversions)
                from mloda.core.abstract_plugins.compute_framework import ComputeFramework

                out = ComputeFramework.transform(mk_cfw(dst), native, set())
            elif path == "roundtrip":
                mid = mk_tfs(src, dst).transform(mk_cfw(dst), native, set())
                out = mk_tfs(dst, src).transform(mk_cfw(src), mid, set())
            elif path == "flight":
                from mloda.core.runtime.flight.flight_server import FlightServer

                loc = flight_location()
                cfw = mk_cfw(src)
                cfw.set_data(native)
                oid = cfw.upload_table(loc)
                try:
                    raw = FlightServer.download_table(loc, oid)
                finally:
                    FlightServer.drop_tables(loc, {oid})
                out = src.convert_flyserver_data_back(raw, cfw.transformer)
            else:
                raise ValueError(path)
            return {"out": out, "ty": tname(type(out)) if out is not None else None, "hops": list(rec.calls)}
        except Exception as e:  # noqa: BLE001
            return {"out": None, "err": err_class(e), "msg": (type(e).__name__ + ": " + str(e))[:200], "hops": list(rec.calls)}


_FLIGHT: Dict[str, Any] = {}


def flight_server() -> Any:
    if "srv" not in _FLIGHT:
        from harness.flight import start_private_flight_server

        _FLIGHT["srv"] = start_private_flight_server()
    return _FLIGHT["srv"]


def flight_location() -> Any:
    return flight_server().get_location()


def stop_flight_server() -> None:
    srv = _FLIGHT.pop("srv", None)
    if srv is not None:
        try:
            srv.end_flight_server_process()
        except Exception:
            pass


def run_flight_path_guarded(ctx: Ctx, case: Dict[str, Any], native: Any) -> Optional[Dict[str, Any]]:
    """The flight path talks to the flight server from this process (gRPC without deadline): watchdog, one retry on a
    fresh server, and only a hang that reproduces is reported."""
    from harness import schedlib as S

    for attempt in (0, 1):
        fin, res = S.guarded(lambda: run_path(case, native), RUN_TIMEOUT)
        if fin and isinstance(res, dict):
            return res
        HopRecorder.restore_all()
        stop_flight_server()
        kill_stray_children()
        if attempt == 0:
            ctx.tag("flight_hangs_retried", "calls")
    ctx.case("hops", case, True, path="flight")
    ctx.violation("hops", case, f"flight upload/download for {case['src']} did not end (twice in a row, {RUN_TIMEOUT:.0f} s each)")
    return None


def model_req(case: Dict[str, Any], rj: Dict[str, Any]) -> List[Dict[str, Any]]:
    ts, td = TYPE_OF_FW[case["src"]], TYPE_OF_FW[case["dst"]]
    p = case["path"]
    if p == "hop":
        return [{"op": "C14.cfw", **rj, "expected": td, "dty": ts}]  # a single direct lookup + transform
    if p == "tfs":
        return [{"op": "C14.tfs", **rj, "from": ts, "to": td, "dty": ts}]
    if p == "cfw":
        return [{"op": "C14.cfw", **rj, "expected": td, "dty": ts}]
    if p == "roundtrip":
        return [{"op": "C14.tfs", **rj, "from": ts, "to": td, "dty": ts}, {"op": "C14.tfs", **rj, "from": td, "to": ts, "dty": td}]
    if p == "flight":
        return [{"op": "C14.flight", **rj, "expected": ts, "dty": ts}]
    raise ValueError(p)


def through_of(case: Dict[str, Any]) -> List[str]:
    s, d, p = case["src"], case["dst"], case["path"]
    t = {s, d}
    if p in ("tfs", "roundtrip") and "pa" not in (s, d):
        t.add("pa")
    if p == "flight":
        t = {s, "pa"}
    return sorted(t)


def gen_hop_cases(ctx: Ctx, n_tables: int) -> List[Dict[str, Any]]:
    cases = []
    fws = ["pa", "pd", "py"]
    for _ in range(n_tables):
        spec = encode_spec(gen_table(ctx))
        for s, d in itertools.permutations(fws, 2):
            paths = ["tfs", "roundtrip"]
            if "pa" in (s, d):
                paths += ["hop", "cfw"]
            else:
                paths += ["cfw"]  # no direct transformer: ComputeFramework.transform leaves the data as it is
            for p in paths:
                if ctx.rng.random() < 0.5 or p == "tfs":
                    cases.append({"table": spec, "src": s, "dst": d, "path": p})
        for s in fws:
            if ctx.rng.random() < 0.35:
                cases.append({"table": spec, "src": s, "dst": s, "path": "flight"})
    # fixed witnesses of the recorded findings and of the tolerated changes
    w = [
        {"cols": [{"name": "k", "kind": "int", "vals": [1, 2]}], "nrows": 0},
        {"cols": [{"name": "k", "kind": "int", "vals": [TWO53 + 1, None]}], "nrows": 2},
        {"cols": [{"name": "k", "kind": "int", "vals": [3, None, -7]}, {"name": "f", "kind": "float", "vals": [-0.0, float("nan"), None]},
                  {"name": "s", "kind": "str", "vals": ["", "漢字", None]}, {"name": "b", "kind": "bool", "vals": [True, None, False]}], "nrows": 3},
        {"cols": [{"name": "k", "kind": "int", "vals": [5, 6, 7]}], "nrows": 3, "pd_index": True},
        {"cols": [{"name": "qty", "kind": "int", "vals": [1, 2, 3]}, {"name": "price", "kind": "int", "vals": [10, 20, 30]},
                  {"name": "w", "kind": "float", "vals": [0.5, 1.5, -0.25]}], "nrows": 3, "py_perm": 7},
    ]  # fmt: skip
    for spec in w:
        if spec["nrows"] == 0:
            spec = dict(spec, cols=[dict(c, vals=[]) for c in spec["cols"]])
        spec = encode_spec(dict({"pd_nullable": False, "pd_index": False, "py_perm": None}, **spec))
        for s, d in itertools.permutations(fws, 2):
            cases.append({"table": spec, "src": s, "dst": d, "path": "tfs"})
            cases.append({"table": spec, "src": s, "dst": d, "path": "roundtrip"})
    return cases


def check_hops(ctx: Ctx, cases: List[Dict[str, Any]]) -> None:
    reg = real_registry()
    rj = reg_json(reg)
    reqs: List[Dict[str, Any]] = []
    rows = []
    for case in cases:
        case["through"] = through_of(case)
        spec = decode_spec(case["table"])
        native = build_native(spec, case["src"])
        src_norm = norm_table(native)
        if case["path"] == "flight":
            res = run_flight_path_guarded(ctx, case, native)
            if res is None:
                continue
        else:
            res = run_path(case, native)
        dst_norm = norm_table(res["out"]) if res.get("out") is not None else None
        mr = model_req(case, rj)
        k0 = len(reqs)
        reqs += mr
        if dst_norm is not None and not any(c[0] == "other" for col in dst_norm for c in col["cells"]):
            reqs.append({"op": "C14.approx", "a": src_norm, "b": dst_norm})
            has_approx = True
        else:
            has_approx = False
        rows.append((case, src_norm, dst_norm, res, k0, len(mr), has_approx))
    outs = ctx.lean.batch(reqs)
    for case, src_norm, dst_norm, res, k0, nm, has_approx in rows:
        spec = case["table"]
        flat = [c for col in (src_norm or []) for c in col["cells"]]
        nontriv = spec["nrows"] == 0 or any(c[0] in ("null", "nan", "negzero", "inf", "ninf") for c in flat) or any(c[0] == "str" and (c[1] == "" or not c[1].isascii()) for c in flat) or any(c[0] == "flt" and len(c[1]) > 15 for c in flat)  # fmt: skip
        ctx.case("hops", case, nontriv, path=case["path"], pair=f"{case['src']}->{case['dst']}", nrows=spec["nrows"], py_rows_permuted=bool(spec.get("py_perm")) and case["src"] == "py")
        # model: hop sequence + result type
        mo = outs[k0 : k0 + nm]
        m_hops: List[str] = []
        m_ty = None
        m_err = None
        for o in mo:
            if "err" in o:
                m_err = o["err"]
                break
            m_hops += o["hops"]
            m_ty = o["ty"]
        if "err" in res:
            # the symbolic model has perfect hops: a library failure shows as impl error with the same hop prefix
            ok = res["err"].startswith("hop:") and res["hops"] == m_hops[: len(res["hops"])] and m_err is None or res["err"] == m_err
            if not ok:
                ctx.disagree("hops", case, {"err": res["err"], "hops": res["hops"], "msg": res.get("msg")}, mo)
        else:
            if res["hops"] != m_hops or res["ty"] != m_ty:
                ctx.disagree("hops", case, {"hops": res["hops"], "ty": res["ty"]}, mo)
        # oracle (property text) on the real values
        expect_ty = TYPE_OF_FW[case["src"] if case["path"] in ("roundtrip", "flight") else case["dst"]]
        if case["path"] == "cfw" and "pa" not in (case["src"], case["dst"]):
            expect_ty = TYPE_OF_FW[case["src"]]  # no direct transformer: documented "leave the data"
        bad: List[str] = []
        if "err" in res:
            bad = [f"conversion failed: {res.get('msg')}"]
        else:
            if res["ty"] != expect_ty:
                bad.append(f"result type {res['ty']} instead of {expect_ty}")
            bad += oracle_preserved(src_norm, dst_norm)
        lean_ok = outs[k0 + nm] if has_approx else None
        if bad:
            cls = classify(case, src_norm, bad)
            ctx.violation("hops", case, f"{case['src']}->{case['dst']} via {case['path']}: " + "; ".join(bad[:3]), dst_norm, src_norm, finding_class=cls)
        # the Lean relation must agree with the oracle's verdict on the values
        if has_approx and "err" not in res:
            val_bad = bool(oracle_preserved(src_norm, dst_norm))
            if lean_ok == val_bad:
                ctx.disagree("hops", case, {"oracle_preserved": not val_bad, "src": src_norm, "dst": dst_norm}, {"lean_approx": lean_ok})


# --------------------------------------------------------------------------------------
# suite: illtyped


def suite_illtyped(ctx: Ctx) -> None:
    import pandas as pd
    import pyarrow as pa

    reg = real_registry()
    samples = {PA: pa.table({"a": [1]}), PD: pd.DataFrame({"a": [1]}), PY: [{"a": 1}]}
    for t in set(reg.transformer_map.values()):
        for dirn, fn, srcT in (("left", t.transform_fw_to_other_fw, t.framework()), ("right", t.transform_other_fw_to_fw, t.other_framework())):
            for name, val in samples.items():
                if name == tname(srcT):
                    continue
                try:
                    out = fn(val)
                    ok = False
                except Exception:  # noqa: BLE001
                    out = None
                    ok = True
                ctx.case("illtyped", [t.__name__, dirn, name], True)
                if not ok:
                    ctx.disagree("illtyped", [t.__name__, dirn, name], f"returned {type(out).__name__}", "model assumption: a hop rejects a value of the wrong run-time type")


def suite_ragged(ctx: Ctx) -> None:
    """Row dicts whose key SETS differ (a missing or an extra key) are not a table: the unchanged hop defines the behaviour
    (ValueError 'Inconsistent schema'); converting them silently would drop or invent values."""
    from mloda_plugins.compute_framework.base_implementations.python_dict.python_dict_pyarrow_transformer import PythonDictPyArrowTransformer
    import pyarrow as pa

    for k in range(ctx.budget(40, 400)):
        rng = ctx.rng
        names = rng.sample(["a", "b", "c", "d"], rng.randint(2, 4))
        n = rng.randint(2, 4)
        rows = []
        for i in range(n):
            order = list(names)
            if i:
                rng.shuffle(order)
            rows.append({c: rng.randint(-5, 9) for c in order})
        kind = rng.choice(["missing", "extra", "both"])
        j = rng.randrange(1, n)
        if kind in ("missing", "both"):
            del rows[j][rng.choice(list(rows[j]))]
        if kind in ("extra", "both"):
            rows[j]["zz"] = 1
        via = rng.choice(["hop", "tfs_pa", "tfs_pd"])
        try:
            if via == "hop":
                out = PythonDictPyArrowTransformer.transform(list, pa.Table, rows, None)
            else:
                dst = F.FW_SHORT["pa" if via == "tfs_pa" else "pd"]
                out = mk_tfs(F.FW_SHORT["py"], dst).transform(mk_cfw(dst), rows, set())
            got = "converted:" + json.dumps(norm_table(out))[:200]
        except ValueError as e:
            got = "rejected" if "Inconsistent schema" in str(e) else "ValueError:" + str(e)[:80]
        except Exception as e:  # noqa: BLE001
            got = type(e).__name__ + ":" + str(e)[:80]
        case = {"rows": rows, "kind": kind, "via": via}
        ctx.case("ragged", case, True, ragged=kind)
        if got != "rejected":
            ctx.violation("ragged", case, f"rows with differing key sets ({kind} key in row {j}) via {via}: {got} (the hop defines: ValueError 'Inconsistent schema')", got, "rejected")


# --------------------------------------------------------------------------------------
# suite: e2e


RUN_TIMEOUT = 60.0
FLAKES = {"hangs_retried": 0}


def kill_stray_children() -> None:
    """Terminate child processes left behind by a run that did not end - everything except this check's flight server."""
    srv = _FLIGHT.get("srv")
    keep = srv.flight_server_process.pid if (srv is not None and srv.flight_server_process is not None) else None
    for ch in multiprocessing.active_children():
        if ch.pid != keep:
            try:
                ch.terminate()
                ch.join(2)
                if ch.is_alive():
                    ch.kill()
            except Exception:
                pass


def read_settled_log(log: str) -> List[Dict[str, Any]]:
    """The API call has returned or raised; wait until the event file stops growing, then read it."""
    last = -1
    for _ in range(100):
        size = os.path.getsize(log) if os.path.exists(log) else 0
        if size == last:
            break
        last = size
        time.sleep(0.03)
    events = []
    if os.path.exists(log):
        with open(log) as fh:
            for line in fh:
                try:
                    events.append(json.loads(line))
                except Exception:
                    pass
        try:
            os.remove(log)
        except OSError:
            pass
    return events


def _consumer_calc(cls: Any, data: Any, features: Any) -> Any:
    F.log_event(ev="recv", group=cls.__name__, ty=tname(type(data)), table=norm_table(data), tid=threading.get_ident())
    n = len(norm_table(data)[0]["cells"]) if norm_table(data) else 0
    fw = F._fw_of(features)
    name = sorted(features.get_all_names())[0]
    return F.from_columns({name: [0] * n}, fw)


def run_e2e_case_once(case: Dict[str, Any], logdir: str) -> Dict[str, Any]:
    from mloda.user import mloda
    from mloda.core.abstract_plugins.components.feature import Feature
    from mloda.core.abstract_plugins.components.feature_name import FeatureName
    from mloda.core.abstract_plugins.components.options import Options
    from mloda.core.abstract_plugins.components.parallelization_modes import ParallelizationMode

    load_plugins()
    spec = decode_spec(case["table"])
    src, dst = F.FW_SHORT[case["src"]], F.FW_SHORT[case["dst"]]
    names = [c["name"] for c in spec["cols"]]
    native_holder: Dict[str, Any] = {}

    def producer_calc(cls: Any, data: Any, features: Any) -> Any:
        t = build_native(spec, case["src"])
        F.log_event(ev="sent", group=cls.__name__, table=norm_table(t), tid=threading.get_ident())
        return t

    prod = F.make_group(F.uniq("P14_"), root_data={n: [] for n in names}, frameworks={src}, extra={"calculate_feature": classmethod(producer_calc)})
    out_name = "z_out"

    def input_features(self: Any, options: Options, feature_name: FeatureName) -> Any:
        return {Feature(n) for n in names}

    cons = F.make_group(
        F.uniq("C14_"),
        derived={out_name: {"parents": names, "expr": ["const", 0]}},
        frameworks={dst},
        extra={"calculate_feature": classmethod(_consumer_calc), "input_features": input_features},
    )
    from harness import schedlib as S

    log = os.path.join(logdir, f"ev_{uuid4().hex}.log")
    fsrv = flight_server() if case["mode"] == "MULTIPROCESSING" else None

    def call() -> Dict[str, Any]:
        try:
            res = mloda.run_all(
                [Feature(out_name)],
                compute_frameworks={src, dst},
                plugin_collector=F.collector({prod, cons}),
                parallelization_modes={ParallelizationMode[case["mode"]]},
                flight_server=fsrv,
            )
            return {"ok": True, "result_types": [tname(type(r)) for r in res]}
        except Exception as e:  # noqa: BLE001
            return {"ok": False, "err": (repr(e) + str(e))[-int(os.environ.get("VERIF_ERRLEN", "600")) :]}

    os.environ[F.LOG_ENV] = log
    try:
        fin, out = S.guarded(call, RUN_TIMEOUT)
    finally:
        os.environ.pop(F.LOG_ENV, None)
    if not fin or not isinstance(out, dict):
        out = {"ok": False, "hang": True, "err": f"run did not end within {RUN_TIMEOUT:.0f} s"}
    events = read_settled_log(log)
    out["sent"] = [e["table"] for e in events if e.get("ev") == "sent"]
    out["recv"] = [(e["ty"], e["table"]) for e in events if e.get("ev") == "recv"]
    return out


def run_e2e_case(case: Dict[str, Any], logdir: str) -> Dict[str, Any]:
    """One mloda run under a watchdog; a run that does not end is repeated once after the stray children (manager,
    workers - not this check's flight server) were removed.  Only a hang that happens twice in a row is handed on."""
    out = run_e2e_case_once(case, logdir)
    if out.get("hang"):
        kill_stray_children()
        FLAKES["hangs_retried"] += 1
        out = run_e2e_case_once(case, logdir)
        if out.get("hang"):
            kill_stray_children()
    return out


def gen_e2e_cases(ctx: Ctx, n: int) -> List[Dict[str, Any]]:
    cases = []
    pairs = list(itertools.permutations(["pa", "pd", "py"], 2))
    n_mp = max(6, n // 10)
    for i in range(n):
        mode = "MULTIPROCESSING" if i < n_mp else ctx.rng.choice(["SYNC", "SYNC", "THREADING"])
        s, d = pairs[i % len(pairs)]
        spec = gen_table(ctx)
        spec["pd_index"] = False
        if not spec["cols"]:
            continue
        if s == "py" and spec["nrows"] == 0:
            continue  # a list of dicts with no rows has no columns: there is no source table to move
        cases.append({"table": encode_spec(spec), "src": s, "dst": d, "mode": mode})
    return cases


def check_e2e(ctx: Ctx, cases: List[Dict[str, Any]], logdir: str) -> None:
    reg = real_registry()
    rj = reg_json(reg)
    reqs = []
    rows = []
    for case in cases:
        r = run_e2e_case(case, logdir)
        ts, td = TYPE_OF_FW[case["src"]], TYPE_OF_FW[case["dst"]]
        op = "C14.tfsFlight" if case["mode"] == "MULTIPROCESSING" else "C14.tfs"
        reqs.append({"op": op, **rj, "from": ts, "to": td, "dty": ts})
        rows.append((case, r))
    outs = ctx.lean.batch(reqs)

    def mismatch(r: Dict[str, Any], mo: Dict[str, Any]) -> bool:
        """model: success/failure class and the type the consumer receives; every group runs exactly once"""
        if "err" in mo:
            return bool(r["ok"] or not r.get("err"))
        if not r["ok"]:
            return True
        return len(r["sent"]) != 1 or len(r["recv"]) != 1 or r["recv"][0][0] != mo["ty"]

    for (case, r), mo in zip(rows, outs):
        spec = case["table"]
        through = sorted({case["src"], case["dst"], "pa"} if (case["mode"] == "MULTIPROCESSING" or "pa" not in (case["src"], case["dst"])) else {case["src"], case["dst"]})
        # THREADING / MULTIPROCESSING runs are subject to scheduling: a run the model does not match is repeated up to 2
        # more times and judged on the last attempt (a deterministic defect reproduces every time)
        tries = 0
        first = None
        known_det = spec["nrows"] == 0 and case["dst"] == "py" and "Data is empty or not in expected format" in r.get("err", "")  # F-C14-zero-rows-pydict
        while case["mode"] != "SYNC" and tries < 2 and mismatch(r, mo) and not r.get("hang") and not known_det:
            if first is None:
                first = {"ok": r["ok"], "err": r.get("err", "")[-160:], "sent": len(r["sent"]), "recv": [t for t, _ in r["recv"]]}
            tries += 1
            r = run_e2e_case(case, logdir)
            ctx.evaluations += 1
        if tries and not mismatch(r, mo) and len(ctx.notes) < 12:
            ctx.note(f"e2e {case['mode']} {case['src']}->{case['dst']} matched the model only after {tries} re-run(s); first attempt: {str(first)[:260]}")
        case = dict(case, through=through, path="e2e")
        ctx.case("e2e", case, True, e2e_mode=case["mode"], e2e_pair=f"{case['src']}->{case['dst']}", e2e_reruns=tries)
        td = TYPE_OF_FW[case["dst"]]
        if r.get("hang"):
            ctx.violation("e2e", case, f"{case['mode']} {case['src']}->{case['dst']}: run did not end (twice in a row, {RUN_TIMEOUT:.0f} s each)")
            continue
        if "err" in mo:
            if r["ok"] or not r.get("err"):
                ctx.disagree("e2e", case, {"ok": r["ok"], "recv_ty": [t for t, _ in r["recv"]]}, mo)
        else:
            if r["ok"] and (not r["recv"] or r["recv"][0][0] != mo["ty"]):
                ctx.disagree("e2e", case, {"ok": r["ok"], "recv_ty": [t for t, _ in r["recv"]]}, mo)
        # oracle
        if not r["ok"]:
            cls = None
            if case["mode"] == "MULTIPROCESSING" and case["src"] != "pa" and r["sent"] and not r["recv"]:
                cls = FLIGHT_TFS
            elif spec["nrows"] == 0 and case["dst"] == "py" and r["sent"] and not r["recv"] and "Data is empty or not in expected format" in r.get("err", ""):
                cls = ZERO_ROWS_PY  # the transform step produced [] and PythonDictFramework cannot name its columns
            ctx.violation("e2e", case, f"{case['mode']} {case['src']}->{case['dst']}: run failed although a transformation path exists: " + r.get("err", "")[-160:], r.get("err"), finding_class=cls)
            continue
        if len(r["sent"]) != 1 or len(r["recv"]) != 1:
            ctx.violation("e2e", case, f"producer ran {len(r['sent'])} times, consumer {len(r['recv'])} times")
            continue
        bad = []
        if r["recv"][0][0] != td:
            bad.append(f"consumer on {case['dst']} received a {r['recv'][0][0]}")
        bad += oracle_preserved(r["sent"][0], r["recv"][0][1])
        if bad:
            cls = classify(case, r["sent"][0], bad)
            ctx.violation("e2e", case, f"{case['mode']} {case['src']}->{case['dst']}: " + "; ".join(bad[:3]), r["recv"][0][1], r["sent"][0], finding_class=cls)
    if FLAKES["hangs_retried"]:
        ctx.tag("e2e_hangs_retried", "runs", FLAKES["hangs_retried"])
        FLAKES["hangs_retried"] = 0


# --------------------------------------------------------------------------------------


def run(ctx: Ctx) -> None:
    ctx.extra["rule"] = (
        "hops: (generated table, source fw, target fw, path in {hop, tfs, cfw, roundtrip, flight}); non-trivial = table has a null, "
        "a special float (NaN, +-0, +-inf, large), an empty or non-ASCII string, or 0 rows; registry: all ordered type pairs; synthetic: "
        "random registries over 4 fake types (15% hand-malformed) x all type pairs; e2e: producer/consumer on different frameworks x mode"
    )
    import warnings

    warnings.filterwarnings("ignore", category=RuntimeWarning)  # pandas casting NaN while inferring dtypes
    prev_hook = threading.excepthook
    threading.excepthook = lambda args: None
    try:
        suite_registry(ctx)
        suite_illtyped(ctx)
        suite_ragged(ctx)
        suite_synthetic(ctx)
        cases = gen_hop_cases(ctx, ctx.budget(400, 6000))
        for i in range(0, len(cases), 4000):
            check_hops(ctx, cases[i : i + 4000])
        with tempfile.TemporaryDirectory(prefix="c14_") as d:
            check_e2e(ctx, gen_e2e_cases(ctx, ctx.budget(90, 800)), d)
    finally:
        stop_flight_server()
        threading.excepthook = prev_hook


def search(ctx: Ctx, broken: List[str]) -> None:
    run(ctx)


def replay(ctx: Ctx, body: Dict[str, Any]) -> None:
    suite, case = body.get("suite"), body.get("case")
    try:
        if suite == "hops" and isinstance(case, dict) and "table" in case:
            check_hops(ctx, [case])
        elif suite == "e2e" and isinstance(case, dict) and "table" in case:
            with tempfile.TemporaryDirectory(prefix="c14_") as d:
                check_e2e(ctx, [case], d)
        else:
            run(ctx)
    finally:
        stop_flight_server()
