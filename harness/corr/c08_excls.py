"""C08 / excls - a failing calculation is reported WHATEVER exception class it raises, at ROOT and at derived steps.

The main C08 harness injects one exception class (RuntimeError; ValueError in the validators).  The code between a
feature group's `calculate_feature` and the API caller, however, treats exception classes differently (catch-and-convert
handlers such as `except KeyError` in ComputeFramework.run_calculate_feature, `except NotImplementedError` around the
filter engine, `except Exception` in the workers), and it treats a ROOT step (DataCreator root: the compute framework
holds no data yet when the calculation runs) differently from a step that has incoming data.  This module enumerates

    plan (link-free DAG | multi-framework chain | two-source join)  x  failing feature-group step (root / derived)
      x  exception class of the fault (builtin lookup / value / attribute / type / arithmetic / OS errors, raised
         explicitly and "naturally" by a failing dict lookup / getattr / int(), custom Exception subclasses incl. a
         KeyError subclass and a two-argument one)
      x  where it is raised (inside calculate_feature - plain, or wrapped by one / two pass-through extenders - or by the
         extender that wraps the calculation)
      x  SYNC / THREADING / MULTIPROCESSING  x  run / stream_run

and judges each real run with the oracle of the property text: the API call raises within the bound, does not return,
and the raised exception (args / str / __cause__ / __context__ chain) carries the ORIGINAL error: its class name and the
marker that was put into its message.  The observed step trace is also replayed on the Lean transition system
(`C08.accepts`, main driver): the failing step's error must be what the next loop head raises.
"""
from __future__ import annotations

import time
from typing import Any, Callable, Dict, List, Optional, Set, Tuple

from harness.core import Ctx
from harness import fgfactory as F
from harness import schedlib as S

from mloda.core.abstract_plugins.function_extender import Extender, ExtenderHook

SUITES = {"excls_faults", "excls_accepts"}

ASSUMPTIONS = [
    "excls: faults are instances of Exception subclasses raised synchronously inside calculate_feature or inside the extender that wraps it "
    "(BaseException-only classes such as KeyboardInterrupt / SystemExit and generator-protocol exceptions are outside the enumerated family)",
    "excls: 'carries the original error' is read as: the original exception's class name and the marker placed in its message both occur in the "
    "text of the exception the API raises (args, str, __cause__ / __context__ chain)",
]

BOUND_S = 30.0
HANG_CAP = 3

# ------------------------------------------------------------------------------------------------
# the exception family


class VerifSourceError(Exception):
    """a plugin's own error class"""


class VerifMissingField(KeyError):
    """a plugin's own error class that is-a KeyError (as e.g. a record / schema library would define it)"""


class VerifBadPosition(IndexError):
    pass


class VerifCodedError(Exception):
    """two-argument error: (code, detail)"""

    def __init__(self, code: int, detail: str) -> None:
        super().__init__(code, detail)
        self.code = code
        self.detail = detail


def _r_key_lookup(m: str) -> None:
    record = {"id": [1, 2, 3]}
    record[m]  # a source record that lacks the field


def _r_attr_lookup(m: str) -> None:
    getattr(object(), m)


def _r_int(m: str) -> None:
    int(m)


def _r_assert(m: str) -> None:
    assert False, m


def _mk(cls: Any) -> Callable[[str], None]:
    def r(m: str) -> None:
        raise cls(m)

    return r


def _r_fnf(m: str) -> None:
    raise FileNotFoundError(2, "No such file or directory", m)


def _r_coded(m: str) -> None:
    raise VerifCodedError(17, m)


# key -> (name of the class the fault is an instance of, nearest builtin base (histogram), raiser)
FAMILY: Dict[str, Tuple[str, str, Callable[[str], None]]] = {
    "RuntimeError": ("RuntimeError", "RuntimeError", _mk(RuntimeError)),  # the class the main harness uses (control)
    "KeyError": ("KeyError", "KeyError", _mk(KeyError)),
    "KeyError:lookup": ("KeyError", "KeyError", _r_key_lookup),
    "IndexError": ("IndexError", "IndexError", _mk(IndexError)),
    "LookupError": ("LookupError", "LookupError", _mk(LookupError)),
    "ValueError": ("ValueError", "ValueError", _mk(ValueError)),
    "ValueError:int": ("ValueError", "ValueError", _r_int),
    "AttributeError": ("AttributeError", "AttributeError", _mk(AttributeError)),
    "AttributeError:getattr": ("AttributeError", "AttributeError", _r_attr_lookup),
    "TypeError": ("TypeError", "TypeError", _mk(TypeError)),
    "ZeroDivisionError": ("ZeroDivisionError", "ArithmeticError", _mk(ZeroDivisionError)),
    "AssertionError": ("AssertionError", "AssertionError", _r_assert),
    "NotImplementedError": ("NotImplementedError", "RuntimeError", _mk(NotImplementedError)),
    "FileNotFoundError": ("FileNotFoundError", "OSError", _r_fnf),
    "VerifSourceError": ("VerifSourceError", "Exception", _mk(VerifSourceError)),
    "VerifMissingField": ("VerifMissingField", "KeyError", _mk(VerifMissingField)),
    "VerifBadPosition": ("VerifBadPosition", "IndexError", _mk(VerifBadPosition)),
    "VerifCodedError": ("VerifCodedError", "Exception", _r_coded),
}

# group class name -> {"exc": family key, "site": "calc" | "ext", "marker": str}; inherited by forked workers
EXC_FAULTS: Dict[str, Dict[str, Any]] = {}


def _fire(group: str, site: str) -> None:
    f = EXC_FAULTS.get(group)
    if f is not None and f["site"] == site:
        FAMILY[f["exc"]][2](f["marker"])


def _before_calc(cls: Any, data: Any, features: Any) -> None:
    _fire(cls.__name__, "calc")


HOOKS = {"before_calc": _before_calc}


class PassThrough(Extender):
    """wraps the calculation and does nothing else"""

    def __init__(self, prio: int = 100) -> None:
        self.priority = prio

    def wraps(self) -> Set[ExtenderHook]:
        return {ExtenderHook.FEATURE_GROUP_CALCULATE_FEATURE}

    def __call__(self, func: Any, *args: Any, **kwargs: Any) -> Any:
        return func(*args, **kwargs)


class FailingWrapper(Extender):
    """wraps the calculation; after the wrapped calculation returned, its own post-processing fails for the armed group"""

    def wraps(self) -> Set[ExtenderHook]:
        return {ExtenderHook.FEATURE_GROUP_CALCULATE_FEATURE}

    def __call__(self, func: Any, *args: Any, **kwargs: Any) -> Any:
        r = func(*args, **kwargs)
        owner = getattr(func, "__self__", None)
        _fire(getattr(owner, "__name__", ""), "ext")
        return r


def extenders_for(ext: int, site: str) -> Optional[Set[Extender]]:
    if site == "ext":
        return {FailingWrapper()}
    if ext == 0:
        return None
    return {PassThrough(100 + k) for k in range(ext)}


# ------------------------------------------------------------------------------------------------
# oracle helpers


def exc_text(exc: Optional[BaseException]) -> str:
    """Everything a caller can read off the raised exception: class, str, args of it and of its __cause__/__context__ chain."""
    parts: List[str] = []
    seen: Set[int] = set()
    todo: List[Optional[BaseException]] = [exc]
    while todo:
        cur = todo.pop()
        if cur is None or id(cur) in seen:
            continue
        seen.add(id(cur))
        try:
            parts.append(f"{type(cur).__name__}: {cur}")
        except Exception:
            parts.append(type(cur).__name__)
        for a in getattr(cur, "args", ()) or ():
            parts.append(a if isinstance(a, str) else repr(a))
        todo.append(cur.__cause__)
        todo.append(cur.__context__)
    return "\n".join(parts)


def judge(rr: Any, stream: bool, cls_name: str, marker: str) -> Tuple[str, Optional[str], Any]:
    """(outcome tag, what is violated or None, observed)"""
    if rr.timed_out:
        return "timeout", f"run with a failing calculation did not end within {BOUND_S}s (hang)", "timeout"
    if rr.error is None and rr.exc is None:
        got = len(rr.yielded) if stream else (len(rr.results) if rr.results is not None else None)
        return "return", f"run returned ({got} tables) although the calculation raised {cls_name}({marker!r})", "returned"
    text = exc_text(rr.exc) if rr.exc is not None else (rr.error or "")
    has_m = marker in text
    has_c = cls_name in text
    if has_m and has_c:
        return "raise:carried", None, None
    tail = " | ".join(l.strip() for l in text.replace("\\n", "\n").strip().splitlines()[-3:])[-300:]
    if not has_m and not has_c:
        return "raise:lost", f"raised error carries neither the original error's class {cls_name} nor its message {marker!r} (original failure swallowed, a secondary error is reported)", tail
    if not has_m:
        return "raise:no_marker", f"raised error does not carry the original message {marker!r} of the {cls_name}", tail
    return "raise:no_class", f"raised error does not carry the original error's class {cls_name} (message {marker!r} is there)", tail


# ------------------------------------------------------------------------------------------------
# plans


def gen_plan(rng: Any) -> Tuple[str, Dict[str, Any]]:
    r = rng.random()
    if r < 0.45:
        fw = rng.choice(["pa", "pa", "pd", "py"])
        return "dag", S.gen_spec(rng, max_feats=5, frameworks=(fw,), allow_options=False)
    if r < 0.75:
        return "chain", S.gen_chain_spec(rng)
    return "link", S.gen_link_spec(rng, frameworks=("pa",), nsrc=2, jointypes=("inner", "left", "outer"))


def prepare_plan(shape: str, spec: Dict[str, Any]) -> Any:
    if shape == "link":
        return S.prepare_link(spec, hooks=HOOKS)
    return S.prepare(spec, S.build_classes(spec, hooks=HOOKS))


def root_groups(shape: str, spec: Dict[str, Any]) -> Set[str]:
    return {s["name"] for s in (spec["sources"] if shape == "link" else spec["roots"])}


class _Deck:
    """Round-robin over the family in a shuffled order (per stratum), so that every class meets every stratum early."""

    def __init__(self, rng: Any) -> None:
        self.rng = rng
        self.decks: Dict[Any, List[str]] = {}

    def draw(self, stratum: Any) -> str:
        d = self.decks.get(stratum)
        if not d:
            d = list(FAMILY)
            self.rng.shuffle(d)
            self.decks[stratum] = d
        return d.pop()


def run_one(ctx: Ctx, sess: Any, exp: Dict[str, Any], shape: str, spec: Dict[str, Any], i: int, fault: Dict[str, Any], mode: str, stream: bool, ext: int,
            lean_reqs: Optional[List[Dict[str, Any]]] = None, metas: Optional[List[Any]] = None) -> str:  # fmt: skip
    st = exp["steps"][i]
    group = st["group"]
    is_root = group in root_groups(shape, spec)
    cls_name, base, _ = FAMILY[fault["exc"]]
    S.FAULTS.clear()
    EXC_FAULTS.clear()
    EXC_FAULTS[group] = fault
    t0 = time.time()
    try:
        rr = S.run_session(sess, mode, stream=stream, extenders=extenders_for(ext, fault["site"]), timeout=BOUND_S)
    finally:
        EXC_FAULTS.clear()
    wall = time.time() - t0
    outcome, what, observed = judge(rr, stream, cls_name, fault["marker"])
    case = {"shape": shape, "spec": spec, "plan": S.canon_plan(exp), "fail_group": group, "fail_step": i, "root": is_root, "fault": fault, "ext": ext, "mode": mode, "stream": stream}
    # was the failing calculation really reached, and did it run without incoming data (the root situation)?
    fail_ev = [e for e in rr.events if e.get("ev") == "begin" and e.get("group") == group]
    no_input = bool(fail_ev) and not fail_ev[0].get("cols")
    ctx.case(
        "excls_faults", case, fault["exc"] != "RuntimeError",
        excls_exc=fault["exc"], excls_base=base, excls_root=is_root, excls_no_input_data=no_input, excls_site="by_extender" if fault["site"] == "ext" else "calc" + (f"+{ext}ext" if ext else ""),
        excls_mode=mode, excls_stream=stream, excls_shape=shape, excls_outcome=outcome, excls_root_x_base=f"{'root' if is_root else 'derived'}:{base}",
    )  # fmt: skip
    ctx.tag("excls_wall_s", "<1" if wall < 1 else "<5" if wall < 5 else ">=5")
    if what is not None:
        fclass = None
        if outcome.startswith("raise") and mode == "thread" and not is_root and S.overlap_on_shared_fw(exp, rr.events):
            # open finding F-C08-thread-lost-update of the main harness (its predicate), narrowed to a fault in a LATER step: a failing
            # root calculation reads no shared data, so a lost update cannot explain a lost message there
            fclass = "threading-overlapping-steps-on-shared-cfw"
        where = f"{'ROOT' if is_root else 'derived'} step {i} ({group}), {fault['exc']} raised {'by the wrapping extender' if fault['site'] == 'ext' else 'in calculate_feature'}"
        ctx.violation("excls_faults", case, f"{what}; {where}, ext={ext}, mode={mode}, stream={stream}", observed, f"raises with {cls_name} and {fault['marker']}", finding_class=fclass)
    if lean_reqs is not None and metas is not None:
        obs = S.obs_of(exp, rr.events)
        if obs:
            lean_reqs.append({"op": "C08.accepts", "steps": S.lean_plan(exp)["steps"], "obs": obs})
            metas.append(({k: v for k, v in case.items() if k != "spec"}, rr.error))
    return outcome


def run(ctx: Ctx) -> None:
    S.install_step_observers()
    deck = _Deck(ctx.rng)
    lean_reqs: List[Dict[str, Any]] = []
    metas: List[Any] = []
    nplans = ctx.budget(12, 120)
    per_step = 2 if ctx.quick else 3
    p_mp = 0.06 if ctx.quick else 0.1
    hangs = 0
    counter = 0
    for _ in range(nplans):
        if hangs >= HANG_CAP:
            ctx.note(f"excls: enumeration stopped after {hangs} reproducible hangs")
            break
        shape, spec = gen_plan(ctx.rng)
        try:
            sess = prepare_plan(shape, spec)
        except Exception:
            ctx.tag("excls_skipped_plans", "prepare_failed")
            continue
        exp = S.export_plan(sess)
        EXC_FAULTS.clear()
        S.FAULTS.clear()
        ok: Dict[Tuple[str, int, bool], bool] = {}

        def baseline_ok(mode: str, ext: int, site: str) -> bool:
            # only where the plan runs to completion without a fault (plans failing on their own are other properties' findings)
            k = (mode, ext, site == "ext")
            if k not in ok:
                EXC_FAULTS.clear()
                b = S.run_session(sess, mode, extenders=extenders_for(ext, site), timeout=BOUND_S)
                ok[k] = b.error is None and not b.timed_out
                if not ok[k]:
                    ctx.tag("excls_mode_skipped_failing_without_fault", f"{shape}:{mode}")
            return ok[k]

        if not baseline_ok("sync", 0, "calc"):
            ctx.tag("excls_skipped_plans", "fails_without_fault")
            continue
        roots = root_groups(shape, spec)
        for i, st in enumerate(exp["steps"]):
            if st["kind"] != "fg":
                continue
            # a group-level fault hits every step of the group: only groups with one step in the plan
            if sum(1 for s2 in exp["steps"] if s2.get("group") == st["group"]) != 1:
                continue
            stratum = "root" if st["group"] in roots else "derived"
            for _k in range(per_step):
                if hangs >= HANG_CAP:
                    break
                exc = deck.draw(stratum)
                r = ctx.rng.random()
                site, ext = ("calc", 0) if r < 0.5 else ("calc", 1) if r < 0.7 else ("calc", 2) if r < 0.8 else ("ext", 1)
                counter += 1
                fault = {"exc": exc, "site": site, "marker": f"VERIFX{counter}x{ctx.rng.randint(1000, 9999)}"}
                modes = ["sync", "thread"] + (["mp"] if ctx.rng.random() < p_mp else [])
                for mode in modes:
                    if not baseline_ok(mode, ext, site):
                        continue
                    for stream in ([False, True] if ctx.rng.random() < 0.4 else [ctx.rng.random() < 0.25]):
                        out = run_one(ctx, sess, exp, shape, spec, i, fault, mode, stream, ext, lean_reqs, metas)
                        if out == "timeout":
                            hangs += 1
    EXC_FAULTS.clear()
    S.stop_flight_server()
    if ctx.lean is not None and lean_reqs:
        outs = ctx.lean.batch(lean_reqs)
        for rq, (case, err), o in zip(lean_reqs, metas, outs):
            c2 = {"case": case, "obs": rq["obs"]}
            ctx.case("excls_accepts", c2, True, excls_acc_mode=case["mode"])
            if not o.get("ok"):
                ctx.disagree("excls_accepts", c2, "observed trace", o)
                continue
            stt = o["state"]
            failed_obs = [j for k_, j in rq["obs"] if k_ == "x"]
            if failed_obs and (stt["returned"] or stt["raised"] is None or stt["raised"] not in failed_obs):
                ctx.disagree("excls_accepts", c2, {"failed": failed_obs, "error": (err or "")[-120:]}, stt)


def run_oracle_only(ctx: Ctx) -> None:
    run(ctx)


def search(ctx: Ctx, broken: List[str]) -> None:
    run(ctx)


def replay(ctx: Ctx, body: Dict[str, Any]) -> None:
    """Re-run the recorded case: rebuild the classes from the recorded spec and inject the recorded fault."""
    case = body.get("case") or {}
    if "case" in case and "spec" not in case:
        case = case["case"]
    if "spec" not in case:
        run(ctx)
        return
    S.install_step_observers()
    sess = prepare_plan(case["shape"], case["spec"])
    exp = S.export_plan(sess)
    idx = [j for j, s_ in enumerate(exp["steps"]) if s_.get("group") == case["fail_group"]]
    if not idx:
        ctx.note("excls replay: the failing group is not a step of the rebuilt plan")
        return
    run_one(ctx, sess, exp, case["shape"], case["spec"], idx[0], case["fault"], case["mode"], case["stream"], case["ext"])
    S.stop_flight_server()
