"""C06 - results do not depend on the execution mode."""
from __future__ import annotations

import json
import time
from typing import Any, Dict, List, Optional

from harness.core import Ctx
from harness import fgfactory as F
from harness import schedlib as S
from harness.corr import c02

ASSUMPTIONS = [
    "interleavings of threads are sampled with seeded delays inside the generated calculations (several completion orders per request), processes by repetition; the theorem quantifies over all interleavings of the model",
    "Arrow Flight transport and pickling fidelity are C14's assumption",
    "join results have no defined row order: rows are sorted before comparing tables of requests with links",
]

DELAYS: Dict[str, float] = {}


GATES: Dict[str, List[str]] = {}  # group -> columns that must be visible in the frame it was handed before it writes (bounded wait)


def _delay_hook(cls: Any, data: Any, features: Any) -> None:
    d = DELAYS.get(cls.__name__)
    if d:
        time.sleep(d)
    need = GATES.get(cls.__name__)
    if need:
        t_end = time.time() + 1.5
        while time.time() < t_end and not all(c in F.columns_of(data) for c in need):
            time.sleep(0.002)


def outcome(rr: S.RunResult, linked: bool) -> Any:
    if rr.timed_out:
        return {"timeout": True}
    if rr.error is not None:
        return {"error": True}
    return {"tables": S.tables_canon(rr.results, sort_rows=linked)}


def alias_suite(ctx: Ctx) -> None:
    """Result tables must be values, not views of data that later steps keep changing: the whole root table is requested and
    derived groups then extend the (pandas / python-dict) data in place; the modes must still agree."""
    for _ in range(ctx.budget(14, 200)):
        uid = F.uniq("")
        fw = ctx.rng.choice(["pd", "pd", "py"])
        ncols = ctx.rng.randint(1, 3)
        nrows = ctx.rng.randint(1, 3)
        cols = {f"r{uid}_{i}": [ctx.rng.randint(-5, 9) for _ in range(nrows)] for i in range(ncols)}
        groups = []
        prev = ctx.rng.choice(list(cols))
        for k in range(ctx.rng.randint(1, 3)):
            f = f"d{uid}_{k}"
            groups.append({"name": f"G{uid}_{k}", "fw": fw, "features": {f: {"parents": [prev], "expr": ["add", ["col", prev], ["const", k + 1]]}}})
            prev = f
        spec = {"roots": [{"name": f"R{uid}", "cols": cols, "fw": fw}], "groups": groups, "inplace": True,
                "request": [{"name": c, "options": {}} for c in cols] + [{"name": prev, "options": {}}]}  # fmt: skip
        try:
            sess = S.prepare(spec, S.build_classes(spec))
        except Exception:
            continue
        ref = S.reference(spec)
        want_tables = None
        for mode in ("sync", "thread", "mp"):
            rr = S.run_session(sess, mode)
            got = outcome(rr, False)
            case = {"spec": spec, "mode": mode}
            ctx.case("alias", case, True, mode=mode, fw=fw, outcome=next(iter(got)))
            if rr.error is None and not rr.timed_out:
                # every returned table holds exactly requested columns with reference values (nothing leaked in later)
                for t in rr.results or []:
                    for c, vals in F.to_columns(t).items():
                        if c not in ref or vals != ref[c] or c not in {q["name"] for q in spec["request"]}:
                            ctx.violation("alias", case, f"result table holds column {c} = {vals}, not a requested column with its reference value", vals, ref.get(c))
            if want_tables is None:
                want_tables = got
            elif got != want_tables:
                fclass = "threading-overlapping-steps-on-shared-cfw" if (mode == "thread" and S.overlap_on_shared_fw(S.export_plan(sess), rr.events)) else None
                ctx.violation("alias", case, f"result in mode {mode} differs from SYNC", got, want_tables, finding_class=fclass)


def inplace_siblings_suite(ctx: Ctx) -> None:
    """Sibling Pandas groups that all write into the frame they were handed (in place, or by returning only the new column as a
    Series) are open at the same time in THREADING on one shared frame, their writes serialised by gates (unsynchronised
    simultaneous inserts into one pandas frame are the known lost-update class); nobody replaces the frame, so no column may
    get lost and the consumer of all siblings must see the SYNC values."""
    for _ in range(ctx.budget(10, 150)):
        uid = F.uniq("")
        nrows = ctx.rng.randint(1, 3)
        rc = f"r{uid}"
        nsib = ctx.rng.randint(2, 4)
        groups = []
        sib = []
        for k in range(nsib):
            f = f"s{uid}_{k}"
            sib.append(f)
            groups.append({"name": f"G{uid}_{k}", "fw": "pd", "style": ctx.rng.choice([True, "series", "series"]),
                           "features": {f: {"parents": [rc], "expr": [ctx.rng.choice(["add", "mul"]), ["col", rc], ["const", k + 2]]}}})  # fmt: skip
        expr: Any = ["col", sib[0]]
        for q in sib[1:]:
            expr = ["add", expr, ["col", q]]
        groups.append({"name": f"Z{uid}", "fw": "pd", "features": {f"z{uid}": {"parents": sib, "expr": expr}}})
        spec = {"roots": [{"name": f"R{uid}", "cols": {rc: [ctx.rng.randint(-5, 9) for _ in range(nrows)]}, "fw": "pd"}], "groups": groups,
                "request": [{"name": f"z{uid}", "options": {}}] + [{"name": q, "options": {}} for q in sib if ctx.rng.random() < 0.3]}  # fmt: skip
        sess = S.prepare(spec, S.build_classes(spec, hooks={"before_calc": _delay_hook}))
        exp = S.export_plan(sess)
        DELAYS.clear()
        want = outcome(S.run_session(sess, "sync"), False)
        for rep in range(2 if ctx.quick else 4):
            # the siblings enter together (each is handed the shared frame) and write strictly one after the other: a sibling waits
            # until the columns of the siblings before it (in a seeded order) are visible in the frame it holds
            order = list(range(nsib))
            ctx.rng.shuffle(order)
            GATES.clear()
            for pos, k in enumerate(order):
                GATES[groups[k]["name"]] = [sib[j] for j in order[:pos]]
            rr = S.run_session(sess, "thread")
            GATES.clear()
            got = outcome(rr, False)
            overlap = S.overlap_on_shared_fw(exp, rr.events)
            case = {"spec": spec, "mode": "thread", "write_order": [sib[k] for k in order]}
            ctx.case("inplace_siblings", case, overlap, overlap=overlap, outcome=next(iter(got)))
            if got != want:
                fclass = "threading-overlapping-steps-on-shared-cfw" if (overlap and not S.overlap_all_in_place(spec, exp, rr.events)) else None
                ctx.violation("inplace_siblings", case, "THREADING result of sibling in-place Pandas groups (writes serialised) differs from SYNC", got, want, finding_class=fclass)
    DELAYS.clear()


def run(ctx: Ctx) -> None:
    ctx.extra["rule"] = (
        "each generated request (link-free DAGs with sibling groups / diamonds / option variants on one framework, multi-framework chains, two- and "
        "three-source joins) is executed in SYNC, several times in THREADING with different seeded completion orders, and in MULTIPROCESSING; the canonical "
        "multiset of result tables (or the fact that the call raises) must coincide across all of them; THREADING traces without overlapping steps are also "
        "replayed through the un-serialised Lean data-flow model, whose values must equal the real ones; non-trivial = some run had >=2 steps open at once, "
        "or the plan has a join / transform step"
    )
    n = ctx.budget(45, 1200)
    lean_reqs: List[Dict[str, Any]] = []
    metas: List[Any] = []
    for k in range(n):
        r = ctx.rng.random()
        linked = False
        if r < 0.5:
            spec = S.gen_spec(ctx.rng, max_feats=ctx.rng.choice([4, 7, 10]), frameworks=(ctx.rng.choice(["pa", "pa", "pd", "py"]),), allow_options=ctx.rng.random() < 0.4)
            spec["inplace"] = ctx.rng.random() < 0.5  # derived groups extend a pandas frame / list of dicts in place
            if ctx.rng.random() < 0.4:
                # request every column of the root in frame order too (the whole source table is a result)
                have = {q["name"] for q in spec["request"]}
                spec["request"] += [{"name": c, "options": {}} for c in spec["roots"][0]["cols"] if c not in have]
            kind = "single-fw"
        elif r < 0.6:
            spec = S.gen_star_spec(ctx.rng)
            kind = "links-star"
            linked = True
        elif r < 0.75:
            spec = S.gen_chain_spec(ctx.rng)
            kind = "multi-fw"
        else:
            spec = S.gen_link_spec(ctx.rng, frameworks=("pa",) if ctx.rng.random() < 0.6 else ("pa", "pd", "py"), jointypes=("inner", "left", "outer"))
            kind = "links"
            linked = True
        try:
            sess = S.prepare_link(spec, hooks={"before_calc": _delay_hook}) if linked else S.prepare(spec, S.build_classes(spec, hooks={"before_calc": _delay_hook}))
        except Exception:
            ctx.tag("rejected_at_prepare", kind)
            continue
        exp = S.export_plan(sess)
        groups = [x["name"] for x in (spec.get("roots", []) + spec.get("groups", []) + spec.get("sources", []))] + ([spec["consumer"]["name"]] if linked else [])
        DELAYS.clear()
        base = S.run_session(sess, "sync")
        want = outcome(base, linked)
        runs = [("thread", i) for i in range(2 if ctx.quick else 4)] + ([("mp", 0)] if ctx.rng.random() < (0.3 if ctx.quick else 0.6) else [])
        for mode, rep in runs:
            S.MERGE_DELAY.clear()
            if linked and mode == "thread":
                S.MERGE_DELAY["s"] = ctx.rng.choice([0.0, 0.02, 0.04])
            DELAYS.clear()
            for g in groups:
                DELAYS[g] = ctx.rng.choice([0, 0, 0.003, 0.01, 0.025])
            fl0 = S.FLAKES["hangs_retried"]
            rr = S.run_session(sess, mode)
            if S.FLAKES["hangs_retried"] != fl0:
                ctx.note("run hung once and succeeded on retry: " + json.dumps({"spec": spec, "mode": mode, "delays": dict(DELAYS)})[:1500])
            got = outcome(rr, linked)
            obs = S.obs_of(exp, rr.events)
            conc = False
            open_ = 0
            for kk, _ in obs:
                open_ += 1 if kk == "b" else -1
                conc = conc or open_ >= 2
            has_js = any(st["kind"] != "fg" for st in exp["steps"])
            overlap = S.overlap_on_shared_fw(exp, rr.events)
            fclass = None
            if mode == "thread" and overlap:
                fclass = "threading-overlapping-steps-on-shared-cfw"
            elif mode == "mp" and any(st["kind"] == "join" and st["left"] == "PythonDictFramework" for st in exp["steps"]):
                fclass = "multiprocessing-join-on-python-dict"
            elif linked and len(spec["sources"]) >= 3 and not spec.get("star"):
                fclass = "three-sources-non-sync"
            elif mode == "mp" and any(st["kind"] == "tfs" and st["from"] != "PyArrowTable" for st in exp["steps"]):
                fclass = "multiprocessing-transform-step-from-non-arrow-producer"
            elif mode == "mp" and S.mp_unuploaded_tfs_source(exp):
                fclass = "multiprocessing-transform-source-not-uploaded"
            case = {"spec": spec, "mode": mode, "delays": dict(DELAYS), "order": [i for k_, i in obs if k_ == "b"]}
            ctx.case("modes", case, conc or has_js, kind=kind, mode=mode, concurrent=conc, overlap=overlap, outcome=next(iter(got)))
            if got != want:
                ctx.violation("modes", case, f"result in mode {mode} differs from SYNC ({next(iter(got))} vs {next(iter(want))})", got, want, finding_class=fclass)
            # model replay of thread traces without overlap on one shared object (single framework, link-free)
            if mode == "thread" and kind == "single-fw" and not overlap and rr.error is None and "tables" in want:
                defs = c02.lean_defs(spec, exp)
                if defs:
                    names = c02.names_to_uuids(exp)
                    reqnames = {rq["name"] for rq in spec["request"]}
                    wantu = [u for st in exp["steps"] if st["kind"] == "fg" and st["result"] for u in st["outs"] if names.get(u) in reqnames]
                    lean_reqs.append({"op": "C06.execTrace", "steps": S.lean_plan(exp)["steps"], "defs": defs, "want": wantu, "obs": obs})
                    metas.append((spec, exp, wantu, rr))
    DELAYS.clear()
    S.MERGE_DELAY.clear()
    alias_suite(ctx)
    inplace_siblings_suite(ctx)
    S.stop_flight_server()
    outs = ctx.lean.batch(lean_reqs)
    for rq, (spec, exp, wantu, rr), o in zip(lean_reqs, metas, outs):
        names = c02.names_to_uuids(exp)
        ctx.case("model_replay", {"spec": spec, "obs": rq["obs"]}, len(exp["steps"]) >= 3)
        impl: Dict[str, Any] = {}
        for t in rr.results or []:
            impl.update(F.to_columns(t))
        model = {names[u]: v for u, v in zip(wantu, o.get("values", []))}
        if not o.get("ok") or not o.get("returned") or any(model.get(nm) != impl.get(nm) for nm in model):
            ctx.disagree("model_replay", {"spec": spec, "obs": rq["obs"]}, {k_: impl.get(k_) for k_ in model}, o)


def search(ctx: Ctx, broken: List[str]) -> None:
    run(ctx)


def replay(ctx: Ctx, body: Dict[str, Any]) -> None:
    run(ctx)
