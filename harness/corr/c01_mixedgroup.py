"""C01 extension `mixedgroup`: feature groups that are a SOURCE for some of their features and DERIVED for others.

Input class
  `FeatureGroup.is_root` decides per feature ("a feature could be flexible depending on the options"): a group may declare
  `input_data()` for some of its names and return parents from `input_features()` for others.  Requests here contain one or two such
  MIXED groups M next to a plain root group R and zero to two plain derived groups G over R:
      M.m_j                    source columns of M (input_features -> None, DataCreator)
      M.d_k  <- features of OTHER groups (columns of R, features of G, derived features of another mixed group), sometimes a
                second level M.e <- M.d_k inside the group
  The source features and the derived features of a mixed group are requested in DIFFERENT option groups (separate steps), all
  other request entries carry the option variants the main suite uses.  The request ORDER is drawn: most of the time the source
  features of the mixed groups come first ("root first"), otherwise the derived ones first or a shuffle.  The planner groups the steps
  per feature group at the queue position of the group's first feature and the queue starts with the in-degree-0 features in
  collection order, so with the root feature first the plan lists the step of M.d_k BEFORE every step that produces one of its inputs -
  plans are not topologically ordered, only the orchestrator's required-uuid gate keeps the order.  Tag
  `mixedgroup_step_before_all_its_producers` counts, from the exported plan, the requests in which some feature-group step with a
  non-empty required set stands before all steps that produce its required uuids.
  Every request is run with `run` (compute) in SYNC, THREADING and sampled MULTIPROCESSING and with `stream_run` (compute_stream) in
  SYNC / THREADING; seeded delays in the calculations (sources of inputs slow most of the time) as in the main suite.

Oracle (from the property text; evaluated on the generated groups' own event log: begin / done / fail of every calculate_feature with
the incoming columns and the option group; a feature instance is (name, option group) - options of a requested feature are handed down to its inputs)
  (1) every feature instance of the request's dependency closure is handed to a calculation exactly once (at most once in a failed run),
  (2) a calculation begins only after the calculation of every feature instance it transitively depends on has ended,
  (3) the columns of all its (transitive) inputs are in the data it receives,
  (4) a run in which no calculation failed returns and ends within the watchdog (nothing is injected here),
  (5) the values of every requested derived feature in the returned tables equal an independent row-wise reference evaluation.
The dependency closure, the ancestors and the reference values are computed from the generated spec, not from mloda's graph.
Known class reused from the main suite: THREADING, two FEATURE-GROUP steps open at once on the SAME compute-framework object
(observed per run on the objects, helper of c01_joinside) = F-C01-thread-lost-update; it only ever excuses (3)-(5), never (1)/(2).
Model side: the exported plan goes through `C01.planCheck`, the observed step trace of every `run` through `C01.accepts`, SYNC runs
through `C01.syncRun` (main driver of the property).
"""
from __future__ import annotations

import time
from typing import Any, Dict, List, Optional, Set, Tuple

from harness.core import Ctx
from harness import fgfactory as F
from harness import schedlib as S
from harness.corr import c01_joinside as J  # read-only: install_cfw_observer / overlaps_on_object

SUITES = {"mixedgroup_runs", "mixedgroup_plan", "mixedgroup_accepts", "mixedgroup_syncRun"}

ASSUMPTIONS = [
    "mixedgroup: calculations are observed inside the generated groups' calculate_feature (begin/end/fail with the incoming columns, CLOCK_MONOTONIC); "
    "a feature instance is identified by (name, group options) - the options of a requested feature are merged into the options of its input features by the engine",
    "mixedgroup: OS thread/process scheduling is sampled (seeded delays), not controlled; SYNC runs are deterministic",
]

DELAYS: Dict[str, float] = {}
KNOWN_THREAD = "threading-overlapping-steps-on-shared-cfw"


def _delay_hook(cls: Any, data: Any, features: Any) -> None:
    d = DELAYS.get(cls.__name__)
    if d:
        time.sleep(d)


def _done_hook(cls: Any, data: Any, features: Any, result: Any) -> None:
    """`after_calc` hook of the generated groups: the calculation proper is over; logged WITH the option group (the groups' own `end`
    event carries none), so that the end of a calculation is attributed to the right feature instance even when two option variants of one
    group are calculated at the same time."""
    F.log_event(ev="calc_done", group=cls.__name__, features=sorted(features.get_all_names()), opts=F._opts_of(features))


HOOKS = {"before_calc": _delay_hook, "after_calc": _done_hook}


# ----------------------------------------------------------------------------------------------------------------------
# a real FeatureGroup class that is a source for `root_data`'s names and derived for `derived`'s names


def make_mixed_group(name: str, root_data: Dict[str, List[Any]], derived: Dict[str, Dict[str, Any]], fw: Any, hooks: Optional[Dict[str, Any]] = None, inplace: Any = False) -> Any:
    from mloda.core.abstract_plugins.feature_group import FeatureGroup
    from mloda.core.abstract_plugins.components.feature import Feature
    from mloda.core.abstract_plugins.components.input_data.creator.data_creator import DataCreator

    hooks = hooks or {}
    rootnames = set(root_data)

    def feature_names_supported(cls: Any) -> Set[str]:
        return set(root_data) | set(derived)

    def input_data(cls: Any) -> Any:
        return DataCreator(set(rootnames))

    def input_features(self: Any, options: Any, feature_name: Any) -> Any:
        n = str(feature_name)
        if n in rootnames:
            return None  # a source for this name
        return {Feature(p) for p in derived[n]["parents"]}

    def calculate_feature(cls: Any, data: Any, features: Any) -> Any:
        names = sorted(features.get_all_names())
        F.log_event(ev="begin", group=cls.__name__, features=names, cols=sorted(F.columns_of(data)), opts=F._opts_of(features))
        if "before_calc" in hooks:
            hooks["before_calc"](cls, data, features)
        try:
            if all(n in rootnames for n in names):
                result = F.from_columns({n: list(root_data[n]) for n in names}, F._fw_of(features))
            elif all(n in derived for n in names):
                cols = F.to_columns(data)
                nrows = len(next(iter(cols.values()))) if cols else 0
                new: Dict[str, List[Any]] = {}
                for n in names:
                    vals = []
                    for i in range(nrows):
                        row = {c: cols[c][i] for c in cols}
                        vals.append(F.eval_expr(derived[n]["expr"], row, features.get_options_key))
                    new[n] = vals
                if inplace == "series" and len(new) == 1 and hasattr(data, "columns") and hasattr(data, "assign"):
                    import pandas as pd

                    ((c1, v1),) = new.items()
                    result = pd.Series(v1, index=data.index, name=c1)
                else:
                    result = F.add_columns(data, new, inplace=bool(inplace))
            else:
                raise ValueError(f"{cls.__name__}: source and derived features in one calculation: {names}")
            if "after_calc" in hooks:
                hooks["after_calc"](cls, data, features, result)
        except BaseException as e:
            F.log_event(ev="fail", group=cls.__name__, features=names, err=repr(e)[:200])
            raise
        F.log_event(ev="end", group=cls.__name__, features=names, cols=sorted(F.columns_of(result)))
        return result

    fws = {fw}
    ns: Dict[str, Any] = {
        "__module__": F.MODNAME,
        "feature_names_supported": classmethod(feature_names_supported),
        "input_data": classmethod(input_data),
        "input_features": input_features,
        "calculate_feature": classmethod(calculate_feature),
        "compute_framework_rule": classmethod(lambda cls: fws),
    }
    cls = type(name, (FeatureGroup,), ns)
    setattr(F.DYN, name, cls)
    return cls


# ----------------------------------------------------------------------------------------------------------------------
# generator


def _expr(rng: Any, parents: List[str]) -> Any:
    expr: Any = ["col", parents[0]]
    for q in parents[1:]:
        expr = [rng.choice(["add", "sub", "mul"]), expr, ["col", q]]
    if rng.random() < 0.4:
        expr = ["add", expr, ["const", rng.randint(1, 4)]]
    return expr


def gen_spec(rng: Any) -> Dict[str, Any]:
    uid = F.uniq("")
    fw = rng.choice(["pa", "pa", "pd", "py"])
    nrows = rng.randint(1, 4)

    def style() -> Any:
        return rng.choice([False, False, True, "series"]) if fw == "pd" else (rng.random() < 0.3 if fw == "py" else False)

    root = {"name": f"R{uid}", "fw": fw, "cols": {f"r{uid}_{i}": [rng.randint(-5, 9) for _ in range(nrows)] for i in range(rng.randint(1, 3))}}
    avail: List[str] = list(root["cols"])  # possible parents, all in R's component
    owner: Dict[str, str] = {c: root["name"] for c in avail}
    groups: List[Dict[str, Any]] = []
    k = 0
    for g in range(rng.choice([0, 0, 1, 1, 2])):
        gname = f"G{uid}_{g}"
        feats: Dict[str, Any] = {}
        for _ in range(rng.choice([1, 1, 2])):
            f = f"d{uid}_{k}"
            k += 1
            par: List[str] = []
            for _ in range(rng.choice([1, 1, 2])):
                c = rng.choice(avail[-3:] if rng.random() < 0.5 else avail)
                if c not in par:
                    par.append(c)
            feats[f] = {"parents": par, "expr": _expr(rng, par)}
            avail.append(f)
            owner[f] = gname
        groups.append({"name": gname, "fw": fw, "features": feats, "style": style()})

    mixed: List[Dict[str, Any]] = []
    levels = False
    for m in range(rng.choice([1, 1, 1, 2])):
        mname = f"M{uid}_{m}"
        mrows = rng.randint(1, 4)
        cols = {f"m{uid}_{m}{j}": [rng.randint(0, 9) for _ in range(mrows)] for j in range(rng.choice([1, 1, 2]))}
        feats = {}
        for _ in range(rng.choice([1, 1, 1, 2])):
            f = f"x{uid}_{k}"
            k += 1
            pool = [a for a in avail if owner[a] != mname]  # inputs from OTHER groups only
            par = []
            for _ in range(rng.choice([1, 1, 2])):
                c = rng.choice(pool[-3:] if rng.random() < 0.4 else pool)
                if c not in par:
                    par.append(c)
            feats[f] = {"parents": par, "expr": _expr(rng, par)}
            avail.append(f)
            owner[f] = mname
        if rng.random() < 0.2:
            # a second dependency level inside the mixed group
            f = f"x{uid}_{k}"
            k += 1
            par = [rng.choice(list(feats))]
            if rng.random() < 0.3:
                par.append(rng.choice(list(root["cols"])))
            feats[f] = {"parents": par, "expr": _expr(rng, par)}
            avail.append(f)
            owner[f] = mname
            levels = True
        mixed.append({"name": mname, "fw": fw, "cols": cols, "features": feats, "style": style()})

    # option groups: the source features of the mixed groups in one, every derived request in another one
    opt_root: Dict[str, Any] = rng.choice([{}, {}, {}, {"s": 1}])
    der_pool: List[Dict[str, Any]] = [{"g": 1}, {"g": 2}] + ([{}] if opt_root else [])
    req_roots: List[Dict[str, Any]] = []
    req_mder: List[Dict[str, Any]] = []
    req_rest: List[Dict[str, Any]] = []
    for mg in mixed:
        rc = list(mg["cols"])
        for c in ([rng.choice(rc)] if rng.random() < 0.6 else rc):
            req_roots.append({"name": c, "options": dict(opt_root)})
        o = rng.choice(der_pool)
        names = list(mg["features"])
        picked = [n for n in names if rng.random() < 0.7] or [rng.choice(names)]
        for n in picked:
            req_mder.append({"name": n, "options": dict(o if rng.random() < 0.85 else rng.choice(der_pool))})
    for g in groups:
        for n in g["features"]:
            if rng.random() < 0.35:
                req_rest.append({"name": n, "options": dict(rng.choice(der_pool))})
    if rng.random() < 0.3:
        req_rest.append({"name": rng.choice(list(root["cols"])), "options": dict(rng.choice(der_pool))})
    order = rng.choice(["root_first", "root_first", "root_first", "derived_first", "shuffle"])
    if order == "root_first":
        rest = req_mder + req_rest
        if rng.random() < 0.5:
            rng.shuffle(rest)
        request = req_roots + rest
    elif order == "derived_first":
        request = req_mder + req_rest + req_roots
    else:
        request = req_roots + req_mder + req_rest
        rng.shuffle(request)
    return {
        "mixedgroup": True, "roots": [root], "groups": groups, "mixed": mixed, "request": request,
        "shape": {"order": order, "mixed": len(mixed), "plain": len(groups), "levels": levels, "opt_root": bool(opt_root), "fw": fw},
    }  # fmt: skip


def build_classes(spec: Dict[str, Any], hooks: Optional[Dict[str, Any]] = None) -> Dict[str, Any]:
    classes = S.build_classes({"roots": spec["roots"], "groups": spec["groups"]}, hooks=hooks)
    for mg in spec["mixed"]:
        classes[mg["name"]] = make_mixed_group(mg["name"], mg["cols"], mg["features"], F.FW_SHORT[mg["fw"]], hooks=hooks, inplace=mg.get("style", False))
    return classes


def prepare(spec: Dict[str, Any], hooks: Optional[Dict[str, Any]] = None) -> Any:
    from mloda.user import mloda

    classes = build_classes(spec, hooks)
    fws = {F.FW_SHORT[x["fw"]] for x in spec["roots"] + spec["groups"] + spec["mixed"]}
    return mloda.prepare(S.features_of(spec), compute_frameworks=fws, plugin_collector=F.collector(set(classes.values())))


# ----------------------------------------------------------------------------------------------------------------------
# oracle (from the spec only)


def okey_of_options(o: Optional[Dict[str, Any]]) -> Tuple[Tuple[str, str], ...]:
    return tuple(sorted((str(k_), repr(v)) for k_, v in (o or {}).items()))


def okey_of_event(e: Dict[str, Any]) -> Tuple[Tuple[str, str], ...]:
    o = e.get("opts") or {}
    return tuple(sorted((str(k_), str(v)) for k_, v in (o.get("group") or {}).items()))


def deps_of(spec: Dict[str, Any]) -> Tuple[Dict[str, List[str]], Dict[str, Set[str]], Set[str]]:
    """(direct parents per derived feature, transitive ancestors per feature, source names)"""
    defs = {f: list(d["parents"]) for g in spec["groups"] + spec["mixed"] for f, d in g["features"].items()}
    sources = {c for r in spec["roots"] for c in r["cols"]} | {c for mg in spec["mixed"] for c in mg["cols"]}
    memo: Dict[str, Set[str]] = {}

    def anc(f: str) -> Set[str]:
        if f not in memo:
            out: Set[str] = set()
            for p_ in defs.get(f, []):
                out.add(p_)
                out |= anc(p_)
            memo[f] = out
        return memo[f]

    return defs, {f: anc(f) for f in set(defs) | sources}, sources


def closure_of(spec: Dict[str, Any], anc: Dict[str, Set[str]]) -> Set[Tuple[str, Any]]:
    out: Set[Tuple[str, Any]] = set()
    for r in spec["request"]:
        ok = okey_of_options(r.get("options"))
        out.add((r["name"], ok))
        for a in anc[r["name"]]:
            out.add((a, ok))  # the engine merges the options of a feature into the options of its input features
    return out


def reference(spec: Dict[str, Any]) -> Dict[str, List[Any]]:
    """Row-wise reference values of every derived feature (all of them live on R's rows)."""
    return S.reference({"roots": spec["roots"], "groups": [{"name": g["name"], "features": g["features"]} for g in spec["groups"] + spec["mixed"]]})


def judge(ctx: Ctx, suite: str, spec: Dict[str, Any], exp: Dict[str, Any], mode: str, stream: bool, rr: S.RunResult, case: Any) -> Dict[str, Any]:
    defs, anc, sources = deps_of(spec)
    closure = closure_of(spec, anc)
    calc_b = [e for e in rr.events if e.get("ev") == "begin"]
    calc_e = [e for e in rr.events if e.get("ev") == "calc_done"]
    calc_x = [e for e in rr.events if e.get("ev") == "fail"]
    ok_run = rr.error is None and not rr.timed_out
    how = mode + ("/stream" if stream else "")
    fgfg, _ = J.overlaps_on_object(exp, rr.events)
    fclass = KNOWN_THREAD if (mode == "thread" and fgfg) else None
    end_t: Dict[Tuple[str, Any], int] = {}
    for e in calc_e:
        for f in e["features"]:
            end_t.setdefault((f, okey_of_event(e)), e["t"])
    # (1) exactly once
    count: Dict[Tuple[str, Any], int] = {}
    for e in calc_b:
        for f in e["features"]:
            key = (f, okey_of_event(e))
            count[key] = count.get(key, 0) + 1
    for key in sorted(closure | set(count), key=repr):
        n = count.get(key, 0)
        if key not in closure:
            ctx.violation(suite, case, f"feature {key[0]} with options {dict(key[1])} is outside the dependency closure of the request but was handed to a calculation ({how})", n, 0)
        elif n > 1 or (ok_run and n != 1):
            ctx.violation(suite, case, f"feature {key[0]} with options {dict(key[1])} was handed to a calculation {n} times (expected 1, {how})", n, 1)
    # (2) after all transitive inputs have finished; (3) with their columns in the received data
    early = False
    for e in calc_b:
        ok = okey_of_event(e)
        cols = set(e.get("cols", []))
        here = set(e["features"])
        late: Set[str] = set()
        need_direct: Set[str] = set()
        need_trans: Set[str] = set()
        for f in e["features"]:
            for a in anc.get(f, set()):
                t_end = end_t.get((a, ok))
                if t_end is None or t_end > e["t"] or a in here:
                    late.add(a)
                need_trans.add(a)
            need_direct |= set(defs.get(f, []))
        if late:
            early = True
            ctx.violation(suite, case, f"{e['group']} began calculating {sorted(here)} before the calculation of its inputs {sorted(late)} had finished ({how}; incoming columns {sorted(cols)})", sorted(cols), sorted(need_trans))
        missing = sorted(need_direct - cols)
        if missing:
            ctx.violation(suite, case, f"{e['group']} began calculating {sorted(here)} without the columns {missing} of its inputs (incoming columns {sorted(cols)}, {how})", sorted(cols), sorted(need_direct), finding_class=fclass)
        tmissing = sorted(need_trans - need_direct - cols)
        if tmissing:
            ctx.violation(suite, case, f"{e['group']} began calculating {sorted(here)} without the columns {tmissing} of its transitive inputs (incoming columns {sorted(cols)}, {how})", sorted(cols), sorted(need_trans), finding_class=fclass)
    # (4) termination / no failure out of nothing
    if rr.timed_out:
        ctx.violation(suite, case, f"run did not terminate within the watchdog ({how})", None, None)
    if rr.error is not None and not calc_x and not any(k_ == "x" for k_, _ in S.obs_of(exp, rr.events)):
        ctx.violation(suite, case, f"run raised although no step failed ({how}): {rr.error[-160:]}", rr.error[-300:], "return", finding_class=fclass)
    # (5) values of the requested derived features
    if ok_run and not (stream and rr.yielded is None):
        ref = reference(spec)
        tables = []
        for t in (rr.yielded if stream else (rr.results or [])):
            try:
                tables.append(F.to_columns(t))
            except Exception:
                tables.append({})
        for r in spec["request"]:
            n = r["name"]
            if n in sources:
                want = next(list(v) for x in spec["roots"] + spec["mixed"] for c, v in x["cols"].items() if c == n)
            else:
                want = ref[n]
            got = [t[n] for t in tables if n in t]
            if not got:
                ctx.violation(suite, case, f"requested feature {n} is in none of the returned tables ({how})", [sorted(t) for t in tables], n, finding_class=fclass)
            elif any(g != want for g in got):
                ctx.violation(suite, case, f"requested feature {n} has values {got} but the reference evaluation gives {want} ({how})", got, want, finding_class=fclass)
    return {"fgfg": fgfg, "early": early, "fclass": fclass}


def step_before_all_its_producers(exp: Dict[str, Any]) -> List[int]:
    """Feature-group steps with a non-empty required set that stand in the plan before EVERY step producing a required uuid."""
    steps = exp["steps"]
    prod: Dict[int, int] = {}
    for i, st in enumerate(steps):
        for u in st["outs"]:
            prod[u] = i
    out = []
    for i, st in enumerate(steps):
        ps = {prod[r] for r in st["req"] if r in prod and prod[r] != i}
        if st["kind"] == "fg" and ps and min(ps) > i:
            out.append(i)
    return out


# ----------------------------------------------------------------------------------------------------------------------
# suites


def set_delays(rng: Any, spec: Dict[str, Any], mode: str) -> Dict[str, float]:
    DELAYS.clear()
    if mode == "sync":
        return {}
    for g in spec["groups"] + spec["mixed"]:
        DELAYS[g["name"]] = rng.choice([0, 0, 0.002, 0.01])
    for r in spec["roots"]:
        # the source of the inputs is slow most of the time: a dependant that is let through early is seen to start first
        DELAYS[r["name"]] = rng.choice([0.01, 0.02, 0.04]) if rng.random() < 0.7 else rng.choice([0, 0.002])
    return {k_: v for k_, v in DELAYS.items() if v}


def run_specs(ctx: Ctx, specs: List[Dict[str, Any]], variants: List[Tuple[str, bool]], p_mp: float) -> None:
    J.install_cfw_observer()
    lean_reqs: List[Dict[str, Any]] = []
    metas: List[Any] = []
    for spec in specs:
        shape = spec["shape"]
        try:
            sess = prepare(spec, hooks=HOOKS)
        except Exception as e:
            ctx.case("mixedgroup_plan", {"spec": spec}, False, mixedgroup_prepare="rejected:" + type(e).__name__)
            ctx.violation("mixedgroup_plan", {"spec": spec}, f"link-free request over one root component with mixed source/derived groups rejected at prepare: {e!r}"[:300])
            continue
        exp = S.export_plan(sess)
        lp = S.lean_plan(exp)
        before = step_before_all_its_producers(exp)
        groups_of_steps = [st.get("group") for st in exp["steps"] if st["kind"] == "fg"]
        mixed_names = {mg["name"] for mg in spec["mixed"]}
        # a mixed group really appears as a source step and as a derived step in this plan
        both_roles = any(
            any(st["kind"] == "fg" and st["group"] == mn and not st["req"] for st in exp["steps"]) and any(st["kind"] == "fg" and st["group"] == mn and st["req"] for st in exp["steps"])
            for mn in mixed_names
        )
        ctx.case(
            "mixedgroup_plan", S.canon_plan(exp), bool(before) or both_roles,
            mixedgroup_prepare="ok", mixedgroup_order=shape["order"], mixedgroup_step_before_all_its_producers=bool(before),
            mixedgroup_group_is_source_and_derived_in_plan=both_roles, mixedgroup_steps=len(groups_of_steps), mixedgroup_n_mixed=shape["mixed"],
            mixedgroup_levels=shape["levels"], mixedgroup_fw=shape["fw"], mixedgroup_opt_root=shape["opt_root"],
        )  # fmt: skip
        lean_reqs.append({"op": "C01.planCheck", **lp})
        metas.append(("planCheck", spec, exp, None, None))
        for mode, stream in variants:
            if mode == "mp" and ctx.rng.random() > p_mp:
                continue
            delays = set_delays(ctx.rng, spec, mode)
            rr = S.run_session(sess, mode, stream=stream, timeout=60)
            DELAYS.clear()
            obs = S.obs_of(exp, rr.events)
            case = {"spec": spec, "mode": mode, "stream": stream, "delays": delays, "obs": obs}
            j = judge(ctx, "mixedgroup_runs", spec, exp, mode, stream, rr, case)
            ctx.case(
                "mixedgroup_runs", {"spec": spec, "mode": mode, "stream": stream, "order": [i for k_, i in obs if k_ == "b"]}, bool(before) or both_roles,
                mixedgroup_mode=mode + ("/stream" if stream else ""), mixedgroup_outcome="error" if rr.error else ("timeout" if rr.timed_out else "ok"),
                mixedgroup_run_order=shape["order"], mixedgroup_run_step_before_all_its_producers=bool(before), mixedgroup_began_before_inputs=j["early"],
                **({"mixedgroup_thread_fgfg_same_object": j["fgfg"]} if mode == "thread" else {}),
            )  # fmt: skip
            if not stream and not (j["fclass"] and rr.error):
                lean_reqs.append({"op": "C01.accepts", "steps": lp["steps"], "obs": obs})
                metas.append(("accepts", spec, exp, mode, rr))
                if mode == "sync":
                    lean_reqs.append({"op": "C01.syncRun", "steps": lp["steps"], "fails": [i for k_, i in obs if k_ == "x"]})
                    metas.append(("syncRun", spec, exp, mode, rr))
    DELAYS.clear()
    if ctx.lean is None:
        return
    outs = ctx.lean.batch(lean_reqs)
    for rq, (kind, spec, exp, mode, rr), o in zip(lean_reqs, metas, outs):
        if kind == "planCheck":
            if not (o.get("nonempty") and o.get("disjoint") and o.get("ranked") and o.get("parentsCovered")):
                ctx.disagree("mixedgroup_plan", {"spec": spec, "plan": S.lean_plan(exp)}, "real plan", o)
        elif kind == "accepts":
            ctx.case("mixedgroup_accepts", {"obs": rq["obs"], "mode": mode}, True)
            impl_ret = rr.error is None and not rr.timed_out
            if not o.get("ok"):
                ctx.disagree("mixedgroup_accepts", {"spec": spec, "mode": mode, "obs": rq["obs"]}, "observed trace", o)
            else:
                st = o["state"]
                if st["returned"] != impl_ret and not (rr.error and st["raised"] is None and not st["returned"]):
                    ctx.disagree("mixedgroup_accepts", {"spec": spec, "mode": mode, "obs": rq["obs"]}, {"returned": impl_ret, "error": (rr.error or "")[-200:]}, st)
        elif kind == "syncRun":
            ctx.case("mixedgroup_syncRun", {"plan": S.canon_plan(exp)}, True)
            order = [i for k_, i in S.obs_of(exp, rr.events) if k_ == "b"]
            if order != o.get("begun") or (rr.error is None) != bool(o.get("returned")):
                ctx.disagree("mixedgroup_syncRun", {"spec": spec}, {"begun": order, "returned": rr.error is None}, o)


VARIANTS: List[Tuple[str, bool]] = [("sync", False), ("thread", False), ("mp", False), ("sync", True), ("thread", True)]


def run(ctx: Ctx) -> None:
    ctx.extra["rule"] = ctx.extra.get("rule", "") + (
        " || mixedgroup: one plain root group, 0-2 plain derived groups and 1-2 MIXED groups (source for some names via input_data, derived from features of OTHER groups for "
        "others, sometimes a second level inside the group), source and derived features of a mixed group in different option groups, request order drawn (source features of the "
        "mixed groups first 60 %, derived first, shuffle) so that the plan lists a dependent step before every step producing its inputs; real planner, run() in SYNC / THREADING / "
        "sampled MULTIPROCESSING and stream_run() in SYNC / THREADING with seeded delays; oracle on the groups' begin/end events per feature instance (name, option group): calculated "
        "exactly once, only after all transitive inputs ended, with their columns in the received data, run returns, values equal the reference evaluation"
    )
    n = ctx.budget(40, 500)
    specs = [gen_spec(ctx.rng) for _ in range(n)]
    run_specs(ctx, specs, VARIANTS, 0.2 if ctx.quick else 0.4)
    S.stop_flight_server()


def search(ctx: Ctx, broken: List[str]) -> None:
    specs = [gen_spec(ctx.rng) for _ in range(80)]
    run_specs(ctx, specs, [("sync", False), ("thread", False), ("sync", True)], 0.0)


def replay(ctx: Ctx, body: Dict[str, Any]) -> None:
    case = body.get("case") or {}
    spec = case.get("spec") if isinstance(case, dict) else None
    if isinstance(spec, dict) and spec.get("mixedgroup"):
        mode = case.get("mode", "sync")
        stream = bool(case.get("stream", False))
        variants = [("sync", False)] + ([(mode, stream)] if (mode, stream) != ("sync", False) else [])
        for _ in range(1 if mode == "sync" else 5):  # non-SYNC interleavings are sampled: repeat
            run_specs(ctx, [spec], variants, 1.0)
        S.stop_flight_server()
    else:
        run(ctx)
