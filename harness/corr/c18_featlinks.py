"""C18 extension `featlinks`: link sets that reach the engine ATTACHED TO FEATURES, alone and mixed with API links.

mloda knows two routes for a link: the `links=` argument of the API (validated by LinkValidator.validate_links when the
Engine is built) and `Feature(name, link=Link...)` on a requested feature or on a feature returned by a feature group's
`input_features()` (Engine.add_feature_link_to_links puts those into the SAME set afterwards).  The property does not know
routes: "contradictory link sets ... are rejected before execution; for a pair of feature groups the link used is an
exact-class link if one exists, otherwise ..." - the set in force is the union, whatever way each member took.

The main suites deliver a link set EITHER through the API OR (at most two links) through the two input features of one
consumer, never mixed, and file every accepted contradiction of the second kind under one broad known-finding class.  Here
the input class is generated structurally:

  universe    forest of real FeatureGroup subclasses (data roots, keys k1/k2 that only partly overlap between classes, so
              that inner/left/outer give different rows), one or two consumers Z0/Z1 of a pair of concrete classes each
  routes      every link of a case takes one of: `api`, `in:<consumer>:<0|1>` (attached to the consumer's input feature of
              its left/right class), `req:<consumer>` (attached to the requested feature itself)
  link sets   built around the consumers' inheritance chains: a base link plus derived links (retyped, reversed,
              re-indexed, same left group with a right join, lifted to ancestors / lowered to the concrete classes, an
              identical copy on another route) - sets that are contradictory only IN COMBINATION across routes
              (API+attached, attached+attached, requested+input, consumer 0+consumer 1) next to valid controls
  systematic  a fixed product (every relation kind x every route pair) that is run for every seed, plus the seeded stream

Suites
  featlinks_e2e   mloda.prepare (+ run) of the request; oracle from the property's validation clause and matching rules on
                  the EFFECTIVE set (API links + attached links): rejected at prepare with the documented error / accepted,
                  nothing executed before a rejection, one JoinStep per applicable link, joined rows of the single link
  featlinks_fn    function level, on the link sets the engine REALLY ends up with (ResolveLinks.resolve_links wrapped in the
                  check process: `links` and `link_trekker.data` as they are when resolve_links validates): the final set
                  equals the set the routes imply; LinkValidator.validate_links on it == model C18.validate (+ oracle);
                  links attached to the consumers == model C18.find on the consumers' parent class pairs (+ oracle);
                  ResolveLinkValidator.validate_no_conflicting_join_types on the captured data == model
                  C18.resolveConflict (+ oracle) and, when it raises, prepare must have raised exactly that error
"""
from __future__ import annotations

import os
import shutil
import tempfile
import threading
from typing import Any, Dict, List, Optional, Sequence, Set, Tuple

from harness import fgfactory as F
from harness.core import Ctx
from harness.corr import c18 as M

SUITES = {"featlinks_e2e", "featlinks_fn"}

ASSUMPTIONS = [
    "featlinks: the set of links in force for a request is the union of the API `links=` argument and the links attached to the features that the engine "
    "collects (requested features and features returned by input_features()); Feature equality ignores `link`, so a link attached to a feature that equals "
    "an already collected feature never reaches the engine - such links are generated, tagged and judged separately (class link-on-duplicate-feature-dropped)",
    "featlinks: synchronous mode, one compute framework per request; unique class names (equal links are interchangeable: the survivor of Link.__eq__ "
    "duplicates is canonicalised to the smallest uid); a plan is only RUN when its JoinSteps are what the property demands (guarded by a timeout)",
    "featlinks: planner limitations unrelated to C18 ('other-planner-error', 'no-feature-group') are not judged, except that a link set with two join types "
    "for one ordered pair of groups whose links both apply to a consumer must be answered with the documented 'Conflicting join types' error",
]

FWS = [F.PandasDataFrame, F.PythonDictFramework, F.PyArrowTable]
REL = ["inner", "left", "outer", "right"]
RUN_TIMEOUT_S = 20.0

# ------------------------------------------------------------------------------------------------
# universe: class c has keys k1, k2 and two value columns v<c>, w<c>; keys overlap only partly between classes


def fl_data(c: int) -> Dict[str, List[int]]:
    return {
        "k1": [1 + (c % 3), 2 + (c % 3), 3 + (c % 3), 4 + (c % 3)],
        "k2": [((i + 2 * c) % 6) + 1 for i in range(4)],
        f"v{c}": [100 * (c + 1) + i for i in range(4)],
        f"w{c}": [1000 * (c + 1) + i for i in range(4)],
    }


def fl_universe(parents: Sequence[Optional[int]]) -> List[type]:
    from mloda.core.abstract_plugins.feature_group import FeatureGroup

    classes: List[type] = []
    for c, p in enumerate(parents):
        cols = fl_data(c)

        def calc(cls: Any, data: Any, features: Any, cols: Dict[str, List[int]] = cols) -> Any:
            F.log_event(ev="calc", group=cls.__name__)
            return F.from_columns(cols, F._fw_of(features))

        classes.append(
            F.make_group(F.uniq(f"FL{c}_"), root_data={k: [0] for k in cols}, index_columns=[("k1",), ("k2",)], bases=(FeatureGroup if p is None else classes[p],), extra={"calculate_feature": classmethod(calc)})
        )
    return classes


_CONSUMERS: Dict[Tuple[int, str, str], type] = {}


def fl_consumer(ci: int, feats: List[Tuple[str, Any]]) -> type:
    """Z<ci>.z<ci> depends on the given features (name, attached Link or None); logs the value columns it receives.
    One class per (consumer index, input feature names) for the whole run - the links of the current case are hung on the class
    (`FL_LINKS`) before every prepare (mloda scans all FeatureGroup subclasses at every prepare: thousands of throw-away
    consumer classes would make the suite quadratic)"""
    from mloda.core.abstract_plugins.components.feature import Feature

    names = (feats[0][0], feats[1][0])
    Z = _CONSUMERS.get((ci, *names))
    if Z is None:
        name = f"z{ci}"

        def input_features(self: Any, options: Any, feature_name: Any) -> Any:
            return {Feature(n, link=l) if l is not None else Feature(n) for n, l in zip(names, type(self).FL_LINKS)}

        def calc(cls: Any, data: Any, features: Any) -> Any:
            cols = F.to_columns(data)
            nrows = len(next(iter(cols.values()))) if cols else 0
            F.log_event(ev="consume", consumer=ci, cols={k: v for k, v in cols.items() if k[:1] in ("v", "w") and k[1:].isdigit()})
            return F.add_columns(data, {name: list(range(nrows))})

        Z = F.make_group(F.uniq(f"FLZ{ci}_"), derived={name: {"parents": [], "expr": ["const", 0]}}, extra={"input_features": input_features, "calculate_feature": classmethod(calc), "FL_LINKS": (None, None)})
        _CONSUMERS[(ci, *names)] = Z
    Z.FL_LINKS = (feats[0][1], feats[1][1])  # type: ignore[attr-defined]
    return Z


# ------------------------------------------------------------------------------------------------
# case structure helpers (everything below is computed from the case, never from the implementation)


def feat_name(cons: Dict[str, Any], slot: int) -> str:
    return f"{cons['cols']}{cons['x'] if slot == 0 else cons['y']}"


def carriers_dropped(case: Dict[str, Any]) -> Set[int]:
    """uids of links whose carrier feature equals a feature collected earlier (request order, depth first): Feature equality ignores
    `link`, the engine only looks at the link of a feature it collects for the first time"""
    seen: Set[str] = set()
    dropped: Set[int] = set()
    for ci, cons in enumerate(case["consumers"]):
        seen.add(f"z{ci}")
        for slot in (0, 1):
            n = feat_name(cons, slot)
            if n in seen:
                dropped |= {l["uid"] for l in case["links"] if l["route"] == f"in:{ci}:{slot}"}
            seen.add(n)
    return dropped


def cons_pairs(case: Dict[str, Any]) -> List[Tuple[int, int]]:
    out: List[Tuple[int, int]] = []
    for cons in case["consumers"]:
        for p in ((cons["x"], cons["y"]), (cons["y"], cons["x"])):
            if p not in out:
                out.append(p)
    return out


def same_link(a: Dict[str, Any], b: Dict[str, Any]) -> bool:
    return not M.o_differ(a, b)


def distinct(links: Sequence[Dict[str, Any]]) -> List[Dict[str, Any]]:
    """one representative (smallest uid) of every class of equal links, API members first (set semantics of Engine.links)"""
    out: List[Dict[str, Any]] = []
    for l in sorted(links, key=lambda s: (s["route"] != "api", s["uid"])):
        if not any(same_link(l, m) for m in out):
            out.append(l)
    return out


def applicable(parents: Sequence[Optional[int]], links: Sequence[Dict[str, Any]], pairs: Sequence[Tuple[int, int]]) -> Set[int]:
    out: Set[int] = set()
    for p, q in pairs:
        out |= M.o_links(parents, links, p, q)
    return out


def is_o15_pair(i: Dict[str, Any], j: Dict[str, Any]) -> bool:
    """known finding F-C18-same-pair-same-type: same ORDERED pair (no self link), same join type, only the indexes differ"""
    return i["l"] == j["l"] and i["r"] == j["r"] and i["l"] != i["r"] and i["jt"] == j["jt"] and i["jt"] not in M.STACK


def contra_kinds(parents: Sequence[Optional[int]], links: Sequence[Dict[str, Any]], pairs: Sequence[Tuple[int, int]]) -> Dict[Tuple[int, int], str]:
    """every contradictory (unordered) pair of links of the set with the way the project promises / is known to treat it:
      api          both links came through the API: LinkValidator must reject the API argument
      o15          same ordered pair, same join type (known finding F-C18-same-pair-same-type, any route)
      must-resolve two join types for one ordered pair, at least one link attached, and both links APPLY to a consumer's pair of
                   classes by the property's matching rules (no asymmetric candidate around): the documented resolve-time error
      attached     any other contradiction with an attached member (known finding F-C18-feature-links-unvalidated)"""
    by = {l["uid"]: l for l in links}
    out: Dict[Tuple[int, int], str] = {}
    for pat, a, b in M.o_contra_pairs(links):
        key = (min(a, b), max(a, b))
        i, j = by[a], by[b]
        if is_o15_pair(i, j):
            kind = "o15"
        elif i["route"] == "api" and j["route"] == "api":
            kind = "api"
        else:
            kind = "attached"
            if i["l"] == j["l"] and i["r"] == j["r"] and i["jt"] != j["jt"]:
                for p, q in pairs:
                    used = M.o_links(parents, links, p, q)
                    if a in used and b in used and not any(M.o_asymmetric(parents, l, p, q) for l in links):
                        kind = "must-resolve"
        prev = out.get(key)
        if prev is None or kind == "must-resolve":
            out[key] = kind
    return out


def route_kind(r: str) -> str:
    return r.split(":")[0]


def bucket(n: int) -> str:
    return str(n) if n <= 3 else "4+"


# ------------------------------------------------------------------------------------------------
# running one case on the real code


class ResolveSpy:
    """wraps ResolveLinks.resolve_links in the check process (restored on exit): keeps, for the last prepare, the link set the
    resolver works on, the keys of link_trekker.data and the consumers' parent class pairs AS THEY ARE WHEN resolve_links ENDS
    (normally or by raising) - i.e. exactly what its join-type validation had to look at"""

    def __enter__(self) -> "ResolveSpy":
        from mloda.core.prepare.resolve_links import ResolveLinks

        self.cls = ResolveLinks
        self.orig = ResolveLinks.resolve_links
        self.snap: Optional[Dict[str, Any]] = None
        spy = self

        def wrapped(rl: Any) -> None:
            try:
                spy.orig(rl)
            finally:
                try:
                    spy.snap = {"links": None if rl.links is None else list(rl.links), "keys": list(rl.link_trekker.data.keys()), "pairs": spy._pairs(rl.graph)}
                except Exception as e:  # noqa: BLE001 - the observer must never change the outcome
                    spy.snap = {"error": repr(e)}

        ResolveLinks.resolve_links = wrapped  # type: ignore[method-assign]
        return self

    def __exit__(self, *a: Any) -> None:
        self.cls.resolve_links = self.orig  # type: ignore[method-assign]

    @staticmethod
    def _pairs(g: Any) -> List[Tuple[type, type]]:
        nodes = g.get_nodes()
        out: List[Tuple[type, type]] = []
        for _child, parents in g.parent_to_children_mapping.items():
            for a in parents:
                for b in parents:
                    if a != b:
                        p = (nodes[a].feature_group_class, nodes[b].feature_group_class)
                        if p not in out:
                            out.append(p)
        return out


def guarded_run(session: Any) -> Tuple[str, str]:
    """session.run() in a helper thread: 'ok' / 'error' / 'timeout' (a plan whose joins never become ready must not hang the check)"""
    box: Dict[str, Any] = {}

    def target() -> None:
        try:
            session.run()
            box["r"] = "ok"
        except BaseException as e:  # noqa: BLE001
            box["r"] = "error"
            box["msg"] = " ".join(str(e).split())[-160:]

    th = threading.Thread(target=target, daemon=True)
    th.start()
    th.join(RUN_TIMEOUT_S)
    return ("timeout", "") if th.is_alive() else (box.get("r", "error"), box.get("msg", ""))


def build_links(classes: List[type], specs: Sequence[Dict[str, Any]]) -> Dict[int, Any]:
    from mloda.core.abstract_plugins.components.link import Link, JoinSpec
    from mloda.core.abstract_plugins.components.index.index import Index

    return {s["uid"]: Link(s["jt"], JoinSpec(classes[s["l"]], Index(tuple(s["li"]))), JoinSpec(classes[s["r"]], Index(tuple(s["ri"])))) for s in specs}


def run_case(ctx: Ctx, classes: List[type], case: Dict[str, Any]) -> Dict[str, Any]:
    from mloda.user import mloda
    from mloda.core.abstract_plugins.components.feature import Feature
    from mloda.core.core.step.join_step import JoinStep
    from mloda.core.abstract_plugins.components.validators.link_validator import LinkValidator  # noqa: F401
    from mloda.core.prepare.validators.resolve_link_validator import ResolveLinkValidator

    specs = case["links"]
    objs = build_links(classes, specs)
    uid_by_id = {str(o.uuid): u for u, o in objs.items()}  # by Link.uuid: requested features (and their links) are deep-copied by the API
    by_route: Dict[str, List[int]] = {}
    for s in specs:
        by_route.setdefault(s["route"], []).append(s["uid"])
    api_links: Optional[Set[Any]] = None
    api_order: List[int] = []
    if "api" in by_route:
        api_links = set()
        for u in by_route["api"]:
            api_links.add(objs[u])
        api_order = [uid_by_id[str(o.uuid)] for o in api_links]  # iteration order of the very set handed over (before the engine adds to it)
    consumers: List[type] = []
    request: List[Any] = []
    enabled: Set[type] = set()
    for ci, cons in enumerate(case["consumers"]):
        feats = []
        for slot in (0, 1):
            us = by_route.get(f"in:{ci}:{slot}", [])
            feats.append((feat_name(cons, slot), objs[us[0]] if us else None))
        Z = fl_consumer(ci, feats)
        consumers.append(Z)
        us = by_route.get(f"req:{ci}", [])
        request.append(Feature(f"z{ci}", link=objs[us[0]]) if us else Feature(f"z{ci}"))
        enabled |= {classes[cons["x"]], classes[cons["y"]], Z}
    log = os.path.join(ctx.extra["_fl_tmp"], "events.jsonl")
    open(log, "w").close()
    os.environ[F.LOG_ENV] = log
    res: Dict[str, Any] = {"api_order": api_order}
    session = None
    with ResolveSpy() as spy:
        try:
            session = mloda.prepare(request, compute_frameworks={FWS[case["fw"]]}, links=api_links, plugin_collector=F.collector(enabled))
            res["prepare"] = "ok"
        except Exception as e:  # noqa: BLE001 - a rejection at prepare is a legitimate outcome
            k = M.classify_validator_error(e) if isinstance(e, ValueError) else "other"
            msg = str(e)
            if k in ("double", "conflict", "right", "jointype"):
                res["prepare"] = "validator:" + k
                us = M.UUID_RE.findall(msg)
                uu = {str(o.uuid): u for u, o in objs.items()}
                if len(us) >= 2:
                    res["validator_pair"] = [uu.get(us[0], -1), uu.get(us[1], -1)]
            elif "Conflicting join types" in msg:
                res["prepare"] = "resolve-conflict"
            elif "No feature groups found" in msg:
                res["prepare"] = "no-feature-group"
            else:
                res["prepare"] = "other-planner-error"
                res["msg"] = msg[:160]
            res["events_before_reject"] = len(M.read_events(log))
        snap = spy.snap
    # --- what resolve_links saw
    if snap is not None and "error" not in snap:
        ix = {id(c): i for i, c in enumerate(classes)}
        res["final"] = None if snap["links"] is None else [uid_by_id.get(str(o.uuid), -1) for o in snap["links"]]
        res["attached"] = [uid_by_id.get(str(k[0].uuid), -1) for k in snap["keys"]]
        res["ppairs"] = sorted({(ix[id(a)], ix[id(b)]) for a, b in snap["pairs"] if id(a) in ix and id(b) in ix})
        # the real validators, called on the real objects the engine ended up with
        if snap["links"] is not None:
            res["final_validate"] = M.real_validate(set(snap["links"]), {str(o.uuid): uid_by_id.get(str(o.uuid), -1) for o in snap["links"]})
            res["final_order"] = [uid_by_id.get(str(o.uuid), -1) for o in set(snap["links"])]
        try:
            ResolveLinkValidator.validate_no_conflicting_join_types({k: set() for k in snap["keys"]})
            res["resolve_direct"] = False
        except Exception as e:  # noqa: BLE001
            res["resolve_direct"] = "Conflicting join types" in str(e)
    elif snap is not None:
        res["spy_error"] = snap["error"]
    if session is None:
        return res
    steps = [s for s in session.engine.execution_planner.execution_plan if isinstance(s, JoinStep)]
    res["joins"] = sorted(uid_by_id.get(str(s.link.uuid), -1) for s in steps)
    return res | {"_session": session, "_log": log}


# ------------------------------------------------------------------------------------------------
# the oracle


def judge(ctx: Ctx, case: Dict[str, Any], res: Dict[str, Any], mo: Dict[str, Any]) -> Dict[str, Any]:
    """mo: model answers {"api": C18.validate(api set), "final": C18.validate(final set) | None, "find": C18.find(parent pairs) | None,
    "rc": C18.resolveConflict(attached links) | None}.  Returns the tags of the case."""
    S, SF = "featlinks_e2e", "featlinks_fn"
    parents = case["parents"]
    by_all = {l["uid"]: l for l in case["links"]}
    dropped = carriers_dropped(case)
    declared = distinct(case["links"])
    eff = distinct([l for l in case["links"] if l["uid"] not in dropped])
    canon = {l["uid"]: next(m["uid"] for m in eff if same_link(l, m)) for l in case["links"] if any(same_link(l, m) for m in eff)}
    cp = cons_pairs(case)
    api = [l for l in eff if l["route"] == "api"]
    kinds = contra_kinds(parents, eff, cp)
    prep = res["prepare"]
    pub = {k: v for k, v in res.items() if not k.startswith("_")}
    tags: Dict[str, Any] = {}

    # ---------------- model correspondence on the API argument (as in the main suite)
    api_by = {l["uid"]: l for l in case["links"] if l["route"] == "api"}
    mv = mo["api"]["v"]["r"] if mo.get("api") is not None else "ok"
    if mv != "ok":
        if prep != "validator:" + mv:
            ctx.disagree(S, {**case, "what": "api-validate"}, prep, "validator:" + mv)
    elif prep.startswith("validator:"):
        ctx.disagree(S, {**case, "what": "api-validate"}, prep, "ok")

    # ---------------- rejection / acceptance (the property's validation clause, on the effective set)
    must = sorted(k for k, v in kinds.items() if v == "must-resolve")
    apic = sorted(k for k, v in kinds.items() if v == "api")
    has_jt_conflict = any(i["l"] == j["l"] and i["r"] == j["r"] and i["jt"] != j["jt"] for i in eff for j in eff)
    reached_resolve = "attached" in res
    if prep == "ok" and kinds:
        cls: Optional[str] = None
        if not must and not apic:
            cls = "same-ordered-pair-same-jointype-different-index" if all(v == "o15" for v in kinds.values()) else "links-attached-to-features-not-validated"
        first = (must or apic or sorted(kinds))[0]
        ctx.violation(
            S, case,
            f"contradictory link set was not rejected before execution: links {first[0]} ({describe(by_all[first[0]])}) and {first[1]} ({describe(by_all[first[1]])}) "
            f"[{kinds[first]}]; prepare ok, JoinSteps {res.get('joins')}",
            pub, "rejected at prepare", finding_class=cls,
        )
    if prep != "ok" and kinds and res.get("events_before_reject", 0) != 0:
        ctx.violation(S, case, "feature groups were executed before the contradictory link set was rejected", pub, "no execution")
    if must and not apic and reached_resolve and prep not in ("ok", "resolve-conflict"):
        ctx.violation(
            S, case,
            f"links {must[0]} give two join types for one ordered pair of groups and both apply to a consumer: the documented error is 'Conflicting join types', prepare answered {prep}",
            pub, "resolve-conflict",
        )
    if prep.startswith("validator:") and not M.o_contra_pairs(api) and not M.o_right_reuse(api) and not any(l["jt"] == "invalid" for l in api):
        ctx.violation(S, case, f"non-contradictory API link set rejected by the validator ({prep})", pub, "accepted")
    if prep == "resolve-conflict" and not has_jt_conflict:
        ctx.violation(S, case, "rejected with 'Conflicting join types' although no two links of the set give different join types for one ordered pair", pub, "accepted")

    # ---------------- a declared link that never reaches the engine (attached to a duplicate of an already collected feature)
    lost = [l for l in declared if not any(same_link(l, m) for m in eff)]
    if lost and prep == "ok":
        dk = contra_kinds(parents, declared, cp)
        changed = applicable(parents, declared, cp) != {u for u in applicable(parents, eff, cp)}
        if (dk and not kinds) or changed:
            ctx.violation(
                S, case,
                f"link {lost[0]['uid']} ({describe(lost[0])}, route {lost[0]['route']}) is attached to a feature that equals an already collected feature and silently never reaches "
                f"the engine: the declared set {'is contradictory but accepted' if dk and not kinds else 'names another applicable link than the one planned'} (JoinSteps {res.get('joins')})",
                pub, "declared links take part in validation and matching", finding_class="link-on-duplicate-feature-dropped",
            )
    tags["fl_dropped_by_feature_dedup"] = bucket(len(lost))

    # ---------------- the applicable links: JoinSteps of the prepared plan
    exp_joins = applicable(parents, eff, cp)
    if prep == "ok":
        got_list = [canon.get(u, u) for u in res.get("joins", [])]
        got = set(got_list)
        for uid in sorted(got):
            l = by_all.get(uid)
            if l is None:
                ctx.violation(S, case, "a JoinStep carries a link that is not in the link set", pub, sorted(exp_joins))
            elif l["l"] == l["r"] and all(p != q for p, q in cp):
                ctx.violation(S, case, f"self link {uid} joined two different classes - sibling mismatch", pub, sorted(exp_joins))
        if got != exp_joins:
            asym = {l["uid"] for l in eff if any(M.o_asymmetric(parents, l, p, q) for p, q in cp)}
            cls = "asymmetric-polymorphic-match" if asym and (got - exp_joins) <= asym and mo.get("find") is not None and got == model_used(mo["find"], res, cp, canon) else None
            ctx.violation(S, case, f"JoinSteps of the prepared plan use links {sorted(got)}, the property's rules give {sorted(exp_joins)} for the consumers' class pairs {cp}", pub, sorted(exp_joins), finding_class=cls)
        elif len(got_list) != len(got) and not kinds:
            ctx.violation(S, case, f"more than one JoinStep for one link: {sorted(got_list)}", pub, sorted(exp_joins))
        if mo.get("find") is not None and got != model_used(mo["find"], res, cp, canon):
            ctx.disagree(S, {**case, "what": "joins"}, sorted(got), sorted(model_used(mo["find"], res, cp, canon)))

    # ---------------- function level: what resolve_links really worked on
    if reached_resolve:
        fcase = {**case, "final": res.get("final"), "attached": res.get("attached"), "ppairs": res.get("ppairs")}
        final = res.get("final")
        exp_final = sorted(l["uid"] for l in eff)
        got_final = None if final is None else sorted({canon.get(u, u) for u in final})
        if (got_final or []) != exp_final:
            ctx.violation(SF, fcase, f"the link set the engine ends up with is {got_final}; API links plus links attached to collected features are {exp_final}", got_final, exp_final)
        if final is not None and len(final) != len(set(canon.get(u, u) for u in final)):
            ctx.violation(SF, fcase, "Engine.links holds two equal links", final, exp_final)
        # LinkValidator on the final set (what the API route would have said about the very same set)
        if mo.get("final") is not None and "final_validate" in res:
            order = [by_all[u] for u in res["final_order"] if u in by_all]
            if res["final_validate"] != mo["final"]["v"]:
                ctx.disagree(SF, {**fcase, "what": "validate_links(final set)"}, res["final_validate"], mo["final"]["v"])
            M.judge_validation(ctx, SF, {**fcase, "what": "validate_links(final set)"}, order, res["final_validate"], mo["final"])
            tags["fl_final_set_validator"] = res["final_validate"]["r"]
        # links attached to the consumers
        pp = [tuple(p) for p in res.get("ppairs", [])]
        att = sorted({canon.get(u, u) for u in res["attached"]})
        exp_att = sorted(applicable(parents, eff, pp))
        if mo.get("find") is not None:
            m_att = sorted({canon.get(u, u) for m in mo["find"] for u in m["m"]})
            if att != m_att:
                ctx.disagree(SF, {**fcase, "what": "attached"}, att, m_att)
        for p in cp:
            if p not in pp:
                ctx.note(f"featlinks: consumer class pair {p} is not among the resolved parent pairs {pp}")
        if att != exp_att:
            asym = {l["uid"] for l in eff if any(M.o_asymmetric(parents, l, p, q) for p, q in pp)}
            cls = "asymmetric-polymorphic-match" if asym and (set(att) - set(exp_att)) <= asym and mo.get("find") is not None and att == m_att else None
            ctx.violation(SF, fcase, f"links attached to the consumers (parent class pairs {pp}): {att}, property says {exp_att}", att, exp_att, finding_class=cls)
        # join-type validation of the attached links
        att_specs = [by_all[u] for u in res["attached"] if u in by_all]
        exp_rc = any(a["l"] == b["l"] and a["r"] == b["r"] and a["jt"] != b["jt"] for a in att_specs for b in att_specs)
        rd = res.get("resolve_direct")
        if rd != exp_rc:
            ctx.violation(SF, fcase, f"validate_no_conflicting_join_types on the attached links {res['attached']}: raised={rd}, two join types for one ordered pair: {exp_rc}", rd, exp_rc)
        if mo.get("rc") is not None and rd != mo["rc"]:
            ctx.disagree(SF, {**fcase, "what": "resolveConflict"}, rd, mo["rc"])
        if (rd or exp_rc) and prep != "resolve-conflict":
            ctx.violation(
                SF, fcase,
                f"the links attached by ResolveLinks ({res['attached']}) hold two join types for one ordered pair (validate_no_conflicting_join_types raises on link_trekker.data as captured at the end of "
                f"resolve_links) but prepare did not answer with 'Conflicting join types': {prep}",
                prep, "resolve-conflict",
            )
        if prep == "resolve-conflict" and not (rd or exp_rc):
            ctx.violation(SF, fcase, "prepare raised 'Conflicting join types' but the attached links hold no such conflict", prep, "no conflict")
        tags["fl_attached_conflict"] = bool(rd)

    # ---------------- tags
    routes = sorted({route_kind(l["route"]) for l in case["links"]})
    tags["fl_routes"] = "+".join(routes) if routes else "none"
    tags["fl_n_attached"] = bucket(sum(1 for l in case["links"] if l["route"] != "api"))
    tags["fl_n_links"] = bucket(len(case["links"]))
    tags["fl_consumers"] = len(case["consumers"])
    tags["fl_prepare"] = prep
    ks = sorted(set(kinds.values()))
    tags["fl_contra"] = "+".join(ks) if ks else "none"
    for (a, b), k in kinds.items():
        ra, rb = sorted((route_kind(by_all[a]["route"]), route_kind(by_all[b]["route"])))
        ctx.tag("fl_contra_pair_routes", f"{k}:{ra}+{rb}")
        if k == "must-resolve":
            la = by_all[a]
            exact = any((la["l"], la["r"]) == p for p in cp)
            ctx.tag("fl_must_resolve_match", "exact" if exact else "polymorphic")
            if by_all[a]["route"].split(":")[:2] != by_all[b]["route"].split(":")[:2] and route_kind(by_all[a]["route"]) != "api" and route_kind(by_all[b]["route"]) != "api":
                ctx.tag("fl_must_resolve_across", "two carriers")
    poly = any(not any((by_all[u]["l"], by_all[u]["r"]) == p for p in cp) for u in exp_joins)
    tags["fl_applicable"] = "none" if not exp_joins else ("polymorphic" if poly else "exact")
    return tags


def model_used(find: List[Dict[str, Any]], res: Dict[str, Any], cp: Sequence[Tuple[int, int]], canon: Dict[int, int]) -> Set[int]:
    """links the model's _find_matching_links gives for the consumers' class pairs (the model is asked for res['ppairs'])"""
    out: Set[int] = set()
    for p, m in zip(res.get("ppairs", []), find):
        if tuple(p) in cp:
            out |= {canon.get(u, u) for u in m["m"]}
    return out


def describe(l: Dict[str, Any]) -> str:
    return f"{l['jt']} #{l['l']}{l['li']}->#{l['r']}{l['ri']} via {l['route']}"


def judge_rows(ctx: Ctx, case: Dict[str, Any], res: Dict[str, Any]) -> None:
    """the link actually used is visible in the joined rows: run the plan when it is the right one and holds exactly one
    relational link; every consumer whose class pair the link applies to must receive the reference join"""
    parents = case["parents"]
    dropped = carriers_dropped(case)
    eff = distinct([l for l in case["links"] if l["uid"] not in dropped])
    cp = cons_pairs(case)
    if contra_kinds(parents, eff, cp) or res["prepare"] != "ok":
        return
    exp = applicable(parents, eff, cp)
    by = {l["uid"]: l for l in eff}
    by_all = {l["uid"]: l for l in case["links"]}
    joins = [next((m["uid"] for m in eff if u in by_all and same_link(by_all[u], m)), -1) for u in res.get("joins", [])]
    if len(exp) != 1 or joins != sorted(exp):
        return
    l = by[next(iter(exp))]
    if l["jt"] not in ("inner", "left", "outer"):
        return
    # every consumer must be served by the link (otherwise its inputs cannot be combined at all - planner territory)
    for cons in case["consumers"]:
        if not (M.o_links(parents, eff, cons["x"], cons["y"]) | M.o_links(parents, eff, cons["y"], cons["x"])):
            return
    session = res["_session"]
    run, msg = guarded_run(session)
    res["run"] = run
    if msg:
        res["run_msg"] = msg
    if run != "ok":
        return
    ev = [e for e in M.read_events(res["_log"]) if e.get("ev") == "consume"]
    for ci, cons in enumerate(case["consumers"]):
        mine = [e for e in ev if e.get("consumer") == ci]
        if not mine:
            continue
        x, y = cons["x"], cons["y"]
        lcls, rcls = (x, y) if M.o_links(parents, [l], x, y) else (y, x)
        a, b = f"{cons['cols']}{lcls}", f"{cons['cols']}{rcls}"
        cols = mine[-1]["cols"]
        if a not in cols or b not in cols:
            continue
        key = lambda r: [(-1 if v is None else v) for v in r]  # noqa: E731
        got = sorted([[cols[a][i], cols[b][i]] for i in range(len(cols[a]))], key=key)
        ref = sorted(M.ref_join(l["jt"], fl_data(lcls), fl_data(rcls), l["li"][0], l["ri"][0], a, b), key=key)
        ctx.tag("fl_joined_rows_checked", f"{l['jt']}:{route_kind(l['route'])}")
        if got != ref:
            ctx.violation(
                "featlinks_e2e", case,
                f"consumer {ci} received rows that are not the {l['jt']} join on {l['li']}={l['ri']} of the one applicable link {l['uid']} (route {l['route']})",
                got, ref,
            )


# ------------------------------------------------------------------------------------------------
# generators

HIER_POOL = [
    [None, None],  # two unrelated roots
    [None, None, None],
    [None, 0, None, 2],  # two parallel chains
    [None, 0, 1, None],  # chain of three + unrelated
    [None, 0, 0, None, 3],
    [None, 0, 1, None, 3, 4],  # two chains of three
    [None, 0, None, 2, 2],
]


def lk(uid: int, jt: str, l: int, r: int, li: str, ri: str, route: str) -> Dict[str, Any]:
    return {**M.lspec(uid, l, r, jt, (li,), (ri,)), "route": route}


def systematic_cases() -> List[Dict[str, Any]]:
    """every relation kind x every pair of routes, on two parallel chains P0<-C1, P2<-C3 (consumers read C1 and C3)"""
    parents = [None, 0, None, 2]
    x, y = 1, 3
    route_pairs = [
        ("api", "in:0:1", 1), ("in:0:0", "api", 1), ("in:0:0", "in:0:1", 1), ("api", "req:0", 1), ("req:0", "in:0:0", 1),
        ("in:0:1", "in:1:0", 2), ("req:0", "req:1", 2), ("api", "in:1:1", 2), ("api", "api", 1),
    ]
    kinds = {
        "type-conflict-exact": lambda a, b: [lk(0, "left", x, y, "k1", "k1", a), lk(1, "inner", x, y, "k1", "k1", b)],
        "type-conflict-polymorphic": lambda a, b: [lk(0, "outer", 0, 2, "k1", "k1", a), lk(1, "left", 0, 2, "k1", "k1", b)],
        "type-conflict-shadowed-by-exact": lambda a, b: [lk(0, "inner", 0, 2, "k1", "k1", a), lk(1, "left", 0, 2, "k1", "k1", b), lk(2, "inner", x, y, "k2", "k2", "api")],
        "reversed": lambda a, b: [lk(0, "inner", x, y, "k1", "k1", a), lk(1, "inner", y, x, "k1", "k1", b)],
        "same-type-other-index": lambda a, b: [lk(0, "inner", x, y, "k1", "k1", a), lk(1, "inner", x, y, "k2", "k2", b)],
        "right-share-left": lambda a, b: [lk(0, "right", x, y, "k1", "k1", a), lk(1, "right", x, 2, "k1", "k1", b)],
        "identical": lambda a, b: [lk(0, "left", x, y, "k1", "k2", a), lk(1, "left", x, y, "k1", "k2", b)],
        "exact-beats-polymorphic": lambda a, b: [lk(0, "left", 0, 2, "k1", "k1", a), lk(1, "inner", x, y, "k2", "k1", b)],
        "single-polymorphic": lambda a, b: [lk(0, "outer", 0, 2, "k2", "k1", b)],
        "single-exact": lambda a, b: [lk(0, "left", x, y, "k1", "k1", b)],
    }
    out: List[Dict[str, Any]] = []
    i = 0
    for kname, mk in kinds.items():
        for a, b, ncons in route_pairs:
            links = mk(a, b)
            cons = [{"x": x, "y": y, "cols": "v"}]
            if ncons == 2:
                cons.append({"x": x, "y": y, "cols": "w"})
            out.append({"parents": parents, "consumers": cons, "links": links, "fw": i % 2, "origin": f"systematic:{kname}"})
            i += 1
    # a link attached to a feature that equals an already collected one (second consumer asks for the same features)
    for kname in ("type-conflict-exact", "single-exact"):
        links = kinds[kname]("in:0:1", "in:1:1")
        if kname == "single-exact":
            links = [lk(0, "left", x, y, "k1", "k1", "in:1:1")]
        out.append({"parents": parents, "consumers": [{"x": x, "y": y, "cols": "v"}, {"x": x, "y": y, "cols": "v"}], "links": links, "fw": 0, "origin": f"systematic-dup:{kname}"})
    return out


def random_case(rng: Any) -> Dict[str, Any]:
    parents = rng.choice(HIER_POOL)
    nc = len(parents)
    x, y = rng.sample(range(nc), 2)
    while M.o_dist(parents, x, y) is not None or M.o_dist(parents, y, x) is not None:  # consumers read two groups unrelated by inheritance
        x, y = rng.sample(range(nc), 2)
    cons = [{"x": x, "y": y, "cols": "v"}]
    if rng.random() < 0.35:
        r = rng.random()
        cons.append({"x": x, "y": y, "cols": "w" if r < 0.8 else "v"})  # "v": the same features again (their links are dropped by feature equality)
        if rng.random() < 0.3:
            cons[1]["x"], cons[1]["y"] = y, x
    cx, cy = M.chain(parents, x), M.chain(parents, y)
    slots = ["api"] + [f"in:{ci}:{s}" for ci in range(len(cons)) for s in (0, 1)] + [f"req:{ci}" for ci in range(len(cons))]
    free = {s: 1 for s in slots if s != "api"}
    k = rng.choice([1, 2, 2, 2, 3, 3, 4])
    specs: List[Dict[str, Any]] = []
    for i in range(k):
        r = rng.random()
        if specs and r < 0.6:
            b = rng.choice(specs)
            s = {kk: vv for kk, vv in b.items() if kk != "route"}
            s["uid"] = i
            m = rng.choice(["type", "type", "type", "rev", "index", "left", "copy", "lift", "lower"])
            if m == "type":
                s["jt"] = rng.choice([t for t in REL if t != b["jt"]])
            elif m == "rev":
                s["l"], s["r"], s["li"], s["ri"] = b["r"], b["l"], b["ri"], b["li"]
                if rng.random() < 0.5:
                    s["jt"] = rng.choice(REL)
            elif m == "index":
                s["li"], s["ri"] = [rng.choice(["k1", "k2"])], [rng.choice(["k1", "k2"])]
            elif m == "left":
                s["r"] = rng.choice([c for c in cx + cy if c != b["l"]] or [b["r"]])
                s["jt"] = rng.choice(["right", b["jt"]])
            elif m == "lift":  # the same join declared one level up on both sides (or retyped there)
                pl, pr = parents[b["l"]], parents[b["r"]]
                if pl is not None and pr is not None:
                    s["l"], s["r"] = pl, pr
                if rng.random() < 0.6:
                    s["jt"] = rng.choice(REL)
            elif m == "lower":  # ... or on the concrete classes
                if b["l"] in cx and b["r"] in cy:
                    s["l"], s["r"] = x, y
                elif b["l"] in cy and b["r"] in cx:
                    s["l"], s["r"] = y, x
                if rng.random() < 0.6:
                    s["jt"] = rng.choice(REL)
        else:
            lvl = rng.choice([0, 0, 0, 1, 1, 2])
            l_, r_ = cx[min(lvl, len(cx) - 1)], cy[min(lvl, len(cy) - 1)]
            if rng.random() < 0.15:  # unbalanced levels
                l_, r_ = rng.choice(cx), rng.choice(cy)
            if rng.random() < 0.25:
                l_, r_ = r_, l_
            jt = rng.choice(["inner", "inner", "left", "left", "outer", "right"]) if rng.random() < 0.97 else rng.choice(["append", "union"])
            s = M.lspec(i, l_, r_, jt, (rng.choice(["k1", "k2"]),), (rng.choice(["k1", "k2"]),))
        # route: mostly attached (that is the class), every carrier holds at most one link
        avail = [sl for sl, n in free.items() if n > 0]
        if avail and rng.random() < 0.62:
            rt = rng.choice(avail)
            free[rt] -= 1
        else:
            rt = "api"
        s["route"] = rt
        specs.append(s)
    if all(s["route"] == "api" for s in specs):
        rt = rng.choice([sl for sl in free])
        specs[rng.randrange(len(specs))]["route"] = rt
    return {"parents": parents, "consumers": cons, "links": specs, "fw": rng.choice([0, 0, 1, 1, 2]), "origin": "seeded"}


# ------------------------------------------------------------------------------------------------


def evaluate(ctx: Ctx, cases: List[Dict[str, Any]]) -> None:
    ucache: Dict[Tuple, List[type]] = {}
    runs: List[Dict[str, Any]] = []
    reqs: List[Dict[str, Any]] = []
    slots: List[Dict[str, Optional[int]]] = []
    for c in cases:
        key = tuple(c["parents"])
        classes = ucache.get(key) or ucache.setdefault(key, fl_universe(c["parents"]))
        res = run_case(ctx, classes, c)
        judge_rows(ctx, c, res)
        res.pop("_session", None)
        res.pop("_log", None)
        runs.append(res)
        hj = {"parents": c["parents"], "names": [k.__name__ for k in classes], "idx": []}
        by = {l["uid"]: l for l in c["links"]}
        sl: Dict[str, Optional[int]] = {"api": None, "final": None, "find": None, "rc": None}
        if res["api_order"]:
            sl["api"] = len(reqs)
            reqs.append({"op": "C18.validate", **hj, "links": [by[u] for u in res["api_order"]]})
        if res.get("final_order") is not None and all(u in by for u in res["final_order"]):
            sl["final"] = len(reqs)
            reqs.append({"op": "C18.validate", **hj, "links": [by[u] for u in res["final_order"]]})
        if res.get("final") is not None and "ppairs" in res and all(u in by for u in res["final"]):
            sl["find"] = len(reqs)
            reqs.append({"op": "C18.find", **hj, "links": [by[u] for u in res["final"]], "pairs": [list(p) for p in res["ppairs"]]})
        if "attached" in res and all(u in by for u in res["attached"]):
            sl["rc"] = len(reqs)
            reqs.append({"op": "C18.resolveConflict", **hj, "links": [by[u] for u in res["attached"]]})
        slots.append(sl)
    outs = ctx.lean.batch(reqs) if reqs else []
    for c, res, sl in zip(cases, runs, slots):
        mo = {k: (outs[i] if i is not None else None) for k, i in sl.items()}
        tags = judge(ctx, c, res, mo)
        attached = any(l["route"] != "api" for l in c["links"])
        ctx.case("featlinks_e2e", c, attached and len(c["links"]) >= 2, fl_run=res.get("run", "not-run"), fl_fw=FWS[c["fw"]].__name__, **tags)
        if "attached" in res:
            ctx.case("featlinks_fn", {**c, "what": "resolve"}, attached and bool(res["attached"]))


def with_tmp(ctx: Ctx, fn: Any) -> None:
    tmp = tempfile.mkdtemp(prefix="c18fl_")
    ctx.extra["_fl_tmp"] = tmp
    try:
        fn()
    finally:
        os.environ.pop(F.LOG_ENV, None)
        ctx.extra.pop("_fl_tmp", None)
        shutil.rmtree(tmp, ignore_errors=True)


def run(ctx: Ctx) -> None:
    ctx.extra["rule_featlinks"] = (
        "featlinks: requests of 1-2 consumers of a pair of concrete classes (forests up to 6 classes), 1-4 links each taking one of the routes api / in:<consumer>:<slot> / "
        "req:<consumer>; link sets = base link + derived links (retype, reverse, re-index, same-left right join, copy, lift to ancestors, lower to the concrete classes); "
        "systematic block: 10 relation kinds x 9 route pairs (+2 duplicate-feature cases) for every seed; non-trivial = at least one attached link and >= 2 links"
    )
    n = ctx.budget(1400, 16000)
    cases = systematic_cases()
    while len(cases) < n + 92:
        cases.append(random_case(ctx.rng))
    with_tmp(ctx, lambda: evaluate(ctx, cases))


def search(ctx: Ctx, broken: List[str]) -> None:
    run(ctx)


def replay(ctx: Ctx, body: Dict[str, Any]) -> None:
    case = dict(body.get("case") or {})
    for k in ("what", "final", "attached", "ppairs"):
        case.pop(k, None)
    if "consumers" in case and "links" in case:
        with_tmp(ctx, lambda: evaluate(ctx, [case]))
    else:
        run(ctx)
