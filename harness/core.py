"""Shared machinery of every check: build, audit, Lean driver client, decision, evidence.

Run with /venv/bin/python.  Nothing here is property specific.
"""
from __future__ import annotations

import fcntl
import hashlib
import json
import os
import random
import re
import subprocess
import sys
import time
import traceback
from pathlib import Path
from typing import Any, Callable, Dict, Iterable, List, Optional, Sequence, Tuple

VERIF = Path(__file__).resolve().parent.parent
REPO = Path(os.environ.get("MLODA_REPO", "/repo"))
LEAN = VERIF / "lean"
# evidence of a run against anything but /repo itself (a patched scratch worktree: MLODA_REPO=...) must never replace the committed record
EVID = VERIF / "evidence" if str(REPO) == "/repo" else VERIF / ".scratch" / "evidence_other_repo"
REPLAYS = VERIF / "replays"
CORPUS = VERIF / "corpus"
LOCK = LEAN / ".build.lock"
GUARD = "MLODA_VERIF"

ALLOWED_AXIOMS = {"propext", "Classical.choice", "Quot.sound"}
FORBIDDEN = re.compile(r"\bsorry\b|\badmit\b|^\s*axiom\s|native_decide|bv_decide|implemented_by|\bunsafe\s|maxHeartbeats\s+0\b")

TRUSTED_BASE = [
    "Lean 4.33.0 kernel and elaborator",
    "axioms: at most propext, Classical.choice, Quot.sound (audited with #print axioms on every property theorem this run)",
    "harness/extract.py (prints finite tables of /repo into lean/MlodaVerif/Gen)",
    "correspondence harness (harness/*.py, lean/Driver.lean line protocol)",
    "property oracle in harness/corr (reading of the property text)",
]


def env_for_subprocess() -> Dict[str, str]:
    e = dict(os.environ)
    e["PYTHONPATH"] = f"{REPO}:{VERIF}"
    e[GUARD] = "1"
    e.setdefault("ACERO_ALIGNMENT_HANDLING", "ignore")
    return e


# --------------------------------------------------------------------------------------
# canonical JSON / hashing


def cjson(x: Any) -> str:
    return json.dumps(x, sort_keys=True, separators=(",", ":"), default=str)


def chash(x: Any) -> str:
    return hashlib.sha1(cjson(x).encode()).hexdigest()[:12]


# --------------------------------------------------------------------------------------
# Lean build / audit / driver


class BuildResult:
    def __init__(self, ok: bool, log: str, failed_modules: List[str]):
        self.ok = ok
        self.log = log
        self.failed_modules = failed_modules


def _run(cmd: Sequence[str], cwd: Path, timeout: int = 3600, input: Optional[str] = None) -> Tuple[int, str]:
    p = subprocess.run(cmd, cwd=str(cwd), stdout=subprocess.PIPE, stderr=subprocess.STDOUT, text=True, timeout=timeout, input=input)
    return p.returncode, p.stdout


class _Flock:
    def __enter__(self) -> "_Flock":
        LOCK.parent.mkdir(parents=True, exist_ok=True)
        self.f = open(LOCK, "w")
        fcntl.flock(self.f, fcntl.LOCK_EX)
        return self

    def __exit__(self, *a: Any) -> None:
        fcntl.flock(self.f, fcntl.LOCK_UN)
        self.f.close()


def regenerate() -> Dict[str, Any]:
    """Re-run the translator (finite tables -> Gen/*.lean) against /repo's working tree."""
    with _Flock():
        rc, out = _run(["/venv/bin/python", str(VERIF / "harness" / "extract.py")], cwd=VERIF, timeout=600)
    if rc != 0:
        return {"ok": False, "log": out}
    try:
        return {"ok": True, **json.loads(out.strip().splitlines()[-1])}
    except Exception:
        return {"ok": True, "log": out}


def lake_build(targets: Sequence[str]) -> BuildResult:
    with _Flock():
        rc, out = _run(["lake", "build", *targets], cwd=LEAN, timeout=3000)
    failed = re.findall(r"^✖ \[\d+/\d+\] Building (\S+)", out, flags=re.M)
    failed += re.findall(r"error: .*?MlodaVerif/(\S+?)\.lean", out)
    failed = sorted({f.replace("/", ".") for f in failed})
    return BuildResult(rc == 0, out, failed)


def strip_comments(src: str) -> str:
    # remove block comments (nested not handled beyond one level, good enough for audit) and line comments
    out = []
    i = 0
    depth = 0
    n = len(src)
    while i < n:
        if src.startswith("/-", i):
            depth += 1
            i += 2
            continue
        if depth > 0 and src.startswith("-/", i):
            depth -= 1
            i += 2
            continue
        if depth == 0 and src.startswith("--", i):
            j = src.find("\n", i)
            i = n if j < 0 else j
            continue
        if depth == 0:
            out.append(src[i])
        elif src[i] == "\n":
            out.append("\n")
        i += 1
    return "".join(out)


def import_closure(roots: Sequence[str]) -> List[Path]:
    """Lean source files (under lean/MlodaVerif) transitively imported by the given modules."""
    seen: Dict[str, Path] = {}
    todo = list(roots)
    while todo:
        m = todo.pop()
        if m in seen or not m.startswith("MlodaVerif."):
            continue
        f = LEAN / (m.replace(".", "/") + ".lean")
        if not f.exists():
            continue
        seen[m] = f
        for imp in re.findall(r"^import\s+(\S+)", strip_comments(f.read_text()), flags=re.M):
            todo.append(imp)
    return sorted(seen.values())


def prop_modules(prop: str, kind: str) -> List[str]:
    """Lean modules of a property: MlodaVerif.<kind>.Cxx plus its extension modules MlodaVerif.<kind>.Cxx_<topic>
    (kind = "Props" or "Drv").  Extension modules let a further model (e.g. the graph closure behind C01's ancestor
    sets) live in its own files; they are built, audited and counted exactly like the main module."""
    d = LEAN / "MlodaVerif" / kind
    out = [f"MlodaVerif.{kind}.{prop}"] if (d / f"{prop}.lean").exists() else []
    out += [f"MlodaVerif.{kind}.{f.stem}" for f in sorted(d.glob(f"{prop}_*.lean")) if _ext_enabled(f.stem)]
    return out


def _ext_enabled(stem: str) -> bool:
    """development aid: VERIF_EXT=graph,gen restricts a run to the named extension topics (default: all of them)"""
    only = os.environ.get("VERIF_EXT")
    if only is None:
        return True
    return stem.split("_", 1)[1] in [t.strip() for t in only.split(",") if t.strip()]


def corr_submodules(prop: str) -> List[str]:
    d = VERIF / "harness" / "corr"
    return [f"harness.corr.{f.stem}" for f in sorted(d.glob(f"{prop.lower()}_*.py")) if _ext_enabled(f.stem)]


def grep_forbidden(prop: Optional[str] = None) -> List[str]:
    """Forbidden constructs in the Lean sources this property's theorems and driver depend on (all sources if prop is None)."""
    if prop is None:
        files = [p for p in sorted(LEAN.rglob("*.lean")) if ".lake" not in p.parts and ".audit" not in p.parts]
    else:
        files = import_closure(prop_modules(prop, "Props") + prop_modules(prop, "Drv"))
    hits = []
    for p in files:
        for ln, line in enumerate(strip_comments(p.read_text()).splitlines(), 1):
            if FORBIDDEN.search(line):
                hits.append(f"{p.relative_to(LEAN)}:{ln}: {line.strip()[:120]}")
    return hits


def theorems_of(prop: str) -> Tuple[List[str], int]:
    """Names of the property theorems (declared as `theorem Cxx.name`) and number of examples."""
    names: List[str] = []
    examples = 0
    for m in prop_modules(prop, "Props"):
        f = LEAN / (m.replace(".", "/") + ".lean")
        src = strip_comments(f.read_text())
        names += re.findall(r"^theorem\s+(" + prop + r"\.[A-Za-z0-9_'.]+)", src, flags=re.M)
        examples += len(re.findall(r"^example\b", src, flags=re.M))
    return names, examples


def audit_axioms(prop: str, names: List[str]) -> Tuple[Dict[str, List[str]], List[str]]:
    """#print axioms for each theorem; returns (axioms per theorem, problems)."""
    if not names:
        return {}, []
    src = "".join(f"import {m}\n" for m in prop_modules(prop, "Props")) + "".join(f"#print axioms {n}\n" for n in names)
    tmp = LEAN / ".audit"
    tmp.mkdir(exist_ok=True)
    path = tmp / f"Audit_{prop}_{os.getpid()}.lean"
    path.write_text(src)
    try:
        rc, out = _run(["lake", "env", "lean", str(path)], cwd=LEAN, timeout=1200)
    finally:
        try:
            path.unlink()
        except OSError:
            pass
    per: Dict[str, List[str]] = {}
    problems: List[str] = []
    # outputs look like: 'C17.foo' depends on axioms: [propext, Quot.sound]   or   does not depend on any axioms
    flat = re.sub(r"\s+", " ", out)
    for n in names:
        m = re.search(r"'" + re.escape(n) + r"' depends on axioms: \[([^\]]*)\]", flat)
        if m:
            ax = [a.strip() for a in m.group(1).split(",") if a.strip()]
            per[n] = ax
            bad = [a for a in ax if a not in ALLOWED_AXIOMS]
            if bad:
                problems.append(f"{n}: disallowed axioms {bad}")
        elif re.search(r"'" + re.escape(n) + r"' does not depend on any axioms", flat):
            per[n] = []
        else:
            problems.append(f"{n}: no #print axioms output (rc={rc})")
    return per, problems


def leanchecker(modules: Sequence[str]) -> Tuple[bool, str]:
    with _Flock():
        rc, out = _run(["lake", "env", "leanchecker", *modules], cwd=LEAN, timeout=3000)
    return rc == 0, out[-2000:]


class Lean:
    """Batch client of the line-protocol driver: one JSON object per line in, one per line out."""

    def __init__(self, prop: str = "") -> None:
        self.prop = prop
        self.calls = 0
        self.lines = 0

    def batch(self, reqs: List[Dict[str, Any]], timeout: int = 1800) -> List[Any]:
        if not reqs:
            return []
        payload = "".join(cjson(r) + "\n" for r in reqs)
        p = subprocess.run(
            ["lake", "env", "lean", "--run", f"drivers/{self.prop}.lean"], cwd=str(LEAN), input=payload, stdout=subprocess.PIPE, stderr=subprocess.PIPE, text=True, timeout=timeout
        )
        self.calls += 1
        self.lines += len(reqs)
        outs = [l for l in p.stdout.splitlines() if l.strip()]
        if p.returncode != 0 or len(outs) != len(reqs):
            raise DriverError(f"driver rc={p.returncode} got {len(outs)}/{len(reqs)} lines\nstderr: {p.stderr[-1500:]}\nstdout tail: {p.stdout[-500:]}")
        res = []
        for l in outs:
            try:
                res.append(json.loads(l))
            except Exception:
                raise DriverError(f"driver printed non-JSON line: {l[:200]}")
        return res


class DriverError(Exception):
    pass


# --------------------------------------------------------------------------------------
# known findings


def load_findings(prop: str) -> List[Dict[str, Any]]:
    out: List[Dict[str, Any]] = []
    f = VERIF / "known_findings.json"
    if f.exists():
        out += [e for e in json.loads(f.read_text()).get("findings", []) if e.get("property") == prop]
    d = VERIF / "findings.d"
    if d.is_dir():
        for g in sorted(d.glob("*.json")):
            out += [e for e in json.loads(g.read_text()).get("findings", []) if e.get("property") == prop]
    seen: Dict[str, Dict[str, Any]] = {}
    for e in out:
        seen[e["id"]] = e  # findings.d (source) and known_findings.json (merged copy) hold the same entries
    return list(seen.values())


# --------------------------------------------------------------------------------------
# the per-run context handed to a property module


class Ctx:
    def __init__(self, prop: str, tier: str, seed: int):
        self.prop = prop
        self.tier = tier
        self.seed = seed
        self.rng = random.Random(f"{prop}:{seed}")
        self.lean = Lean(prop)
        self.t0 = time.time()
        self.evaluations = 0
        self._nontrivial: set = set()
        self.samples: List[Any] = []
        self.hist: Dict[str, Dict[str, int]] = {}
        self.violations: List[Dict[str, Any]] = []  # oracle violations on the implementation (not covered by findings)
        self.known_hits: Dict[str, int] = {}  # finding id -> number of times reproduced
        self.disagreements: List[Dict[str, Any]] = []  # model != implementation
        self.suites: Dict[str, Dict[str, Any]] = {}
        self.notes: List[str] = []
        self.exhaustive = False
        self.extra: Dict[str, Any] = {}
        self.findings = load_findings(prop)
        self._drivers: Dict[str, Lean] = {}

    def driver(self, name: str) -> "Lean":
        """Lean client of an extension driver `lean/drivers/<name>.lean` (e.g. "C01_graph"); line counts are pooled."""
        d = self._drivers.get(name)
        if d is None:
            d = self._drivers[name] = Lean(name)
        return d

    @property
    def quick(self) -> bool:
        return self.tier == "quick"

    scale_factor = 1.0  # the failing-input search runs the thorough budgets scaled down (see run_check)

    def budget(self, quick: int, thorough: int) -> int:
        scale = float(os.environ.get("VERIF_SCALE", "1")) * self.scale_factor
        return max(1, int((quick if self.quick else thorough) * scale))

    # -- bookkeeping
    def case(self, suite: str, case: Any, nontrivial: bool, **tags: Any) -> None:
        self.evaluations += 1
        s = self.suites.setdefault(suite, {"cases": 0, "nontrivial": 0, "disagreements": 0, "violations": 0})
        s["cases"] += 1
        if nontrivial:
            h = chash([suite, case])
            if h not in self._nontrivial:
                self._nontrivial.add(h)
                s["nontrivial"] += 1
        if len(self.samples) < 6 and (nontrivial or len(self.samples) < 2) and s["cases"] <= 2:
            self.samples.append({"suite": suite, "case": case})
        for k, v in tags.items():
            self.hist.setdefault(k, {})
            self.hist[k][str(v)] = self.hist[k].get(str(v), 0) + 1

    def tag(self, k: str, v: Any, n: int = 1) -> None:
        self.hist.setdefault(k, {})
        self.hist[k][str(v)] = self.hist[k].get(str(v), 0) + n

    def disagree(self, suite: str, case: Any, impl: Any, model: Any) -> None:
        self.suites.setdefault(suite, {"cases": 0, "nontrivial": 0, "disagreements": 0, "violations": 0})["disagreements"] += 1
        if len(self.disagreements) < 50:
            self.disagreements.append({"suite": suite, "case": case, "impl": impl, "model": model})

    def violation(self, suite: str, case: Any, what: str, impl: Any = None, expected: Any = None, finding_class: Optional[str] = None) -> None:
        """Oracle says the implementation violates the property on `case`.
        `finding_class` names the input class (decided by the caller) the case belongs to; if an open known finding
        has that class the violation is counted as known, otherwise it is new."""
        for f in self.findings:
            if f.get("status", "open") == "open" and finding_class is not None and f.get("input_class") == finding_class:
                self.known_hits[f["id"]] = self.known_hits.get(f["id"], 0) + 1
                return
        self.suites.setdefault(suite, {"cases": 0, "nontrivial": 0, "disagreements": 0, "violations": 0})["violations"] += 1
        if len(self.violations) < 50:
            self.violations.append({"suite": suite, "case": case, "what": what, "impl": impl, "expected": expected})

    def note(self, s: str) -> None:
        self.notes.append(s)


def write_replay(prop: str, kind: str, body: Dict[str, Any]) -> Path:
    REPLAYS.mkdir(exist_ok=True)
    h = chash(body)
    p = REPLAYS / f"{prop}-{kind}-{h}.json"
    p.write_text(json.dumps(body, indent=1, sort_keys=True, default=str))
    return p


def write_evidence(ctx: Ctx, obligations: int, discharged: int, checker_cmd: str, axioms: Dict[str, List[str]], nviol: int, extra_assumptions: List[str]) -> None:
    EVID.mkdir(parents=True, exist_ok=True)
    cov: Dict[str, Any] = {
        "obligations": obligations,
        "discharged": discharged,
        "checker_cmd": checker_cmd,
        "trusted_base": TRUSTED_BASE,
        "evaluations": ctx.evaluations,
        "distinct_nontrivial": len(ctx._nontrivial),
        "rule": ctx.extra.pop("rule", ""),
        "samples": ctx.samples[:6] if ctx.samples else [{"note": "no cases executed"}],
        "exhaustive": ctx.exhaustive,
        "suites": ctx.suites,
        "distribution": ctx.hist,
        "axioms_per_theorem": axioms,
        "known_findings_reproduced": ctx.known_hits,
        "lean_driver_lines": (ctx.lean.lines if ctx.lean is not None else 0) + sum(d.lines for d in ctx._drivers.values()),
        "notes": ctx.notes,
    }
    cov.update(ctx.extra)
    ev = {
        "property_id": ctx.prop,
        "tier": ctx.tier,
        "seed": ctx.seed,
        "level": "proof",
        "coverage": cov,
        "assumptions": extra_assumptions,
        "wall_s": round(time.time() - ctx.t0, 2),
        "violations": nviol,
    }
    (EVID / f"{ctx.prop}.json").write_text(json.dumps(ev, indent=1, sort_keys=True, default=str))


# --------------------------------------------------------------------------------------
# main entry used by /verif/check


def run_check(prop: str, tier: str, replay: Optional[str]) -> int:
    import importlib

    seed = int(os.environ.get("VERIF_SEED", "0") or 0)
    os.environ[GUARD] = "1"
    os.environ.setdefault("ACERO_ALIGNMENT_HANDLING", "ignore")
    sys.path.insert(0, str(REPO))
    sys.path.insert(0, str(VERIF))
    import logging

    logging.disable(logging.CRITICAL)
    import threading

    threading.excepthook = lambda args: None  # worker threads re-raise after set_error; keep stderr readable
    # hard wall-clock limit: a hanging check is a harness error (exit 2), never a verdict
    limit = float(os.environ.get("VERIF_LIMIT_S", "900" if tier == "quick" else "5400"))

    deadline = [time.time() + limit]

    def _watchdog() -> None:
        import faulthandler

        while time.time() < deadline[0]:
            time.sleep(min(5.0, max(0.1, deadline[0] - time.time())))
        print(f"CHECK-ERROR: {prop} exceeded its wall-clock limit ({limit:.0f}s, extended for a failing-input search); thread dump follows", flush=True)
        faulthandler.dump_traceback(file=sys.stdout, all_threads=True)
        sys.stdout.flush()
        os._exit(2)

    threading.Thread(target=_watchdog, daemon=True).start()
    mod = importlib.import_module(f"harness.corr.{prop.lower()}")
    subs = [importlib.import_module(m) for m in corr_submodules(prop)]
    ctx = Ctx(prop, tier, seed)

    # 1. translator
    gen = regenerate()
    if not gen.get("ok"):
        ctx.note("extract.py failed: " + str(gen.get("log"))[-800:])

    # 2. build: models+driver first (needed by the correspondence), then this property's theorems
    core = lake_build(prop_modules(prop, "Drv"))
    if not core.ok:
        # the model itself does not build (generated tables changed shape?) - cannot run the correspondence
        ctx.note("model/driver build failed")
    props = lake_build(prop_modules(prop, "Props"))
    names, nexamples = theorems_of(prop)

    # 3. audit
    hard_errors: List[str] = []
    forb = grep_forbidden(prop)
    if forb:
        hard_errors.append("forbidden constructs in Lean sources: " + "; ".join(forb[:5]))
    axioms: Dict[str, List[str]] = {}
    if props.ok:
        axioms, problems = audit_axioms(prop, names)
        hard_errors += problems
        if tier == "thorough" and not os.environ.get("VERIF_SKIP_LEANCHECKER"):
            ok, out = leanchecker(prop_modules(prop, "Props"))
            ctx.extra["leanchecker"] = "ok" if ok else out
            if not ok:
                hard_errors.append("leanchecker rejected Props module: " + out[-300:])
    if hard_errors:
        for e in hard_errors:
            print("CHECK-ERROR:", e)
        return 2

    # 4. correspondence + oracle on the real code
    broken: List[str] = []
    if not props.ok:
        broken.append(f"lake build {' '.join(prop_modules(prop, 'Props'))} failed: modules {props.failed_modules}")
    corr_crashed = None
    if core.ok:
        try:
            if replay:
                body = json.loads(Path(replay).read_text())
                owner = next((m for m in subs if body.get("suite") in getattr(m, "SUITES", ())), mod)
                owner.replay(ctx, body)
            else:
                mod.run(ctx)
                for m in subs:
                    m.run(ctx)
        except DriverError as e:
            corr_crashed = f"driver error: {e}"
        except Exception:
            corr_crashed = traceback.format_exc()[-3000:]
    else:
        broken.append("model/driver does not build: " + core.log[-600:])
        try:
            ctx.lean = None  # type: ignore
            if hasattr(mod, "run_oracle_only"):
                mod.run_oracle_only(ctx)
        except Exception:
            corr_crashed = traceback.format_exc()[-3000:]
    if corr_crashed:
        print("CHECK-ERROR: harness crashed\n" + corr_crashed)
        return 2
    if ctx.disagreements:
        broken.append(f"{len(ctx.disagreements)} model/implementation disagreements, first in suite {ctx.disagreements[0]['suite']}")

    # 5. decision
    rc = 0
    nviol = 0
    for f in ctx.findings:
        if f.get("status", "open") == "open":
            n = ctx.known_hits.get(f["id"], 0)
            if n > 0:
                print(f"KNOWN-FINDING: property={prop} {f['id']} {f['what_fails']} (reproduced on {n} cases this run)")
            else:
                ctx.note(f"open finding {f['id']} did not reproduce in this run")
    if ctx.violations:
        v = ctx.violations[0]
        path = write_replay(prop, "viol", {"property": prop, "seed": seed, "tier": tier, "kind": "oracle-violation", **v, "more": len(ctx.violations) - 1})
        print(f"VIOLATION property={prop} replay={path.relative_to(VERIF)}")
        print(f"  {v['what']}  suite={v['suite']}")
        rc = 1
        nviol = len(ctx.violations)
    elif broken:
        # failing-input search: enlarged budget of the same oracle run
        found = None
        if core.ok and hasattr(mod, "search"):
            # the search is the suites again with another seed and a larger budget (a fraction of the thorough budget, so that a
            # broken proof obligation is answered in minutes); the watchdog is extended for it
            sctx = Ctx(prop, "thorough", seed + 1)
            sctx.scale_factor = float(os.environ.get("VERIF_SEARCH_SCALE", "0.25"))
            deadline[0] = max(deadline[0], time.time() + float(os.environ.get("VERIF_SEARCH_LIMIT_S", "2400")))
            try:
                mod.search(sctx, broken)
                for m in subs:
                    if hasattr(m, "search"):
                        m.search(sctx, broken)
            except Exception:
                sctx.note("search crashed: " + traceback.format_exc()[-800:])
            ctx.evaluations += sctx.evaluations
            if sctx.violations:
                found = sctx.violations[0]
        if found:
            path = write_replay(prop, "viol", {"property": prop, "seed": seed, "kind": "oracle-violation-after-broken-obligation", "broken": broken, **found})
            print(f"VIOLATION property={prop} replay={path.relative_to(VERIF)}")
        else:
            body = {
                "property": prop,
                "seed": seed,
                "kind": "broken-obligation",
                "broken": broken,
                "build_log_tail": props.log[-3000:] if not props.ok else "",
                "first_disagreements": ctx.disagreements[:5],
            }
            path = write_replay(prop, "unproved", body)
            print(f"VIOLATION property={prop} replay={path.relative_to(VERIF)} no-failing-input-found")
        for b in broken:
            print("  broken:", b[:400])
        rc = 1
        nviol = 1

    sl = sys.modules.get("harness.schedlib")
    if sl is not None and getattr(sl, "FLAKES", {}).get("hangs_retried"):
        ctx.extra["hangs_retried_not_reproduced"] = sl.FLAKES["hangs_retried"]
        ctx.extra["hang_stacks"] = sl.FLAKES.get("stacks", [])
    nsuites = len(ctx.suites)
    obligations = len(names) + nexamples + nsuites
    ok_suites = sum(1 for s in ctx.suites.values() if s["disagreements"] == 0 and s["violations"] == 0)
    discharged = (len(names) + nexamples if props.ok else 0) + ok_suites
    write_evidence(
        ctx,
        obligations,
        discharged,
        f"cd lean && lake build {' '.join(prop_modules(prop, 'Props'))} && lake env lean <#print axioms of {len(names)} theorems>; ./check {prop} --tier {tier}",
        axioms,
        nviol,
        list(getattr(mod, "ASSUMPTIONS", [])) + [a for m in subs for a in getattr(m, "ASSUMPTIONS", [])],
    )
    print(f"{prop} tier={tier} seed={seed}: theorems={len(names)} examples={nexamples} suites={nsuites} evaluations={ctx.evaluations} nontrivial={len(ctx._nontrivial)} violations={nviol} wall={time.time()-ctx.t0:.1f}s")
    return rc
