"""Shared harness for the orchestrator properties (C01, C02, C04, C06, C08, C09, C13): request generator, plan export,
step-level event observation (harness-side wrappers, not a change to /repo), runs in the three modes, reference oracle.
"""
from __future__ import annotations

import json
import os
import tempfile
import threading
import time
import traceback
from typing import Any, Dict, List, Optional, Sequence, Set, Tuple

from harness import fgfactory as F

from mloda.user import mloda, Feature
from mloda.core.abstract_plugins.components.parallelization_modes import ParallelizationMode
from mloda.core.core.step.feature_group_step import FeatureGroupStep
from mloda.core.core.step.transform_frame_work_step import TransformFrameworkStep
from mloda.core.core.step.join_step import JoinStep

MODES = {"sync": ParallelizationMode.SYNC, "thread": ParallelizationMode.THREADING, "mp": ParallelizationMode.MULTIPROCESSING}

# ------------------------------------------------------------------------------------------------
# harness-side observation of step execution (begin / end / fail with the step uuid)

_installed = False
FAULTS: Dict[str, Any] = {}  # injected faults, keyed by step uuid string -> kind (set by tests; inherited by forked workers)
GATES: Dict[str, Any] = {}


MERGE_DELAY: Dict[str, float] = {}
UPLOAD_FAULT: Dict[str, Any] = {}  # {"armed": True}: every upload to the flight store raises (inherited by forked workers)


def install_step_observers() -> None:
    global _installed
    if _installed:
        return
    _installed = True
    from mloda.core.runtime.flight.flight_server import FlightServer as _FS

    _orig_upload = _FS.upload_table

    def _upload(location: str, table: Any, table_key: str) -> None:
        if UPLOAD_FAULT.get("armed"):
            raise RuntimeError("VERIF-FAULT upload")
        return _orig_upload(location, table, table_key)

    _FS.upload_table = staticmethod(_upload)  # type: ignore[method-assign]
    # optional delay between computing a merge and storing it (JoinStep does `cfw.data = engine.merge(cfw.data, ...)`): widens the
    # read-modify-write window of a join the way large tables do, so that joins that are wrongly allowed to overlap lose an update
    from mloda.core.abstract_plugins.components.merge.base_merge_engine import BaseMergeEngine as _BME

    _orig_merge = _BME.merge

    def _merge(self: Any, *a: Any, **kw: Any) -> Any:
        r = _orig_merge(self, *a, **kw)
        d = MERGE_DELAY.get("s")
        if d:
            time.sleep(d)
        return r

    _BME.merge = _merge  # type: ignore[method-assign]
    for cls in (FeatureGroupStep, TransformFrameworkStep, JoinStep):
        orig = cls.execute

        def make(orig: Any, kind: str) -> Any:
            def execute(self: Any, *a: Any, **kw: Any) -> Any:
                F.log_event(ev="sbegin", step=str(self.uuid), kind=kind, thread=threading.get_ident())
                try:
                    if FAULTS.get(str(self.uuid)) == "execute":
                        raise RuntimeError(f"VERIF-FAULT execute {self.uuid}")
                    r = orig(self, *a, **kw)
                except BaseException as e:
                    F.log_event(ev="sfail", step=str(self.uuid), kind=kind, err=repr(e)[:300])
                    raise
                F.log_event(ev="send", step=str(self.uuid), kind=kind)
                return r

            return execute

        cls.execute = make(orig, cls.__name__)  # type: ignore[method-assign]


# ------------------------------------------------------------------------------------------------
# flight server (one per harness process, long lived)

_flight: Any = None


def flight_server() -> Any:
    global _flight
    if _flight is None:
        from harness.flight import start_private_flight_server

        _flight = start_private_flight_server()
    return _flight


def stop_flight_server() -> None:
    global _flight
    if _flight is not None:
        try:
            _flight.end_flight_server_process()
        except Exception:
            pass
        _flight = None


def flight_keys() -> Set[str]:
    from mloda.core.runtime.flight.flight_server import FlightServer

    if _flight is None:
        return set()
    try:
        return set(FlightServer.list_flight_infos(_flight.get_location()))
    except Exception as e:  # pragma: no cover
        return {"<list failed: %r>" % (e,)}


# ------------------------------------------------------------------------------------------------
# request generator: link-free DAGs over one root group per component


def gen_spec(rng: Any, max_feats: int = 8, frameworks: Sequence[str] = ("pa",), allow_options: bool = True, allow_multi_fw: bool = False, single_parent: bool = False, interleave: bool = False) -> Dict[str, Any]:
    """A spec is JSON: {"roots":[{"name","cols":{col:[vals]},"fw"}], "groups":[{"name","fw","features":{f:{"parents":[..],"expr":..}}}],
    "request":[{"name","options":{}}]}.  One root group; derived groups depend on root columns and on each other."""
    nrows = rng.randint(1, 4)
    ncols = rng.randint(1, 3)
    uid = F.uniq("")
    root = {"name": f"R{uid}", "cols": {f"r{uid}_{i}": [rng.choice([None] * 1 + list(range(-3, 6))) if rng.random() < 0.15 else rng.randint(-5, 9) for _ in range(nrows)] for i in range(ncols)}, "fw": rng.choice(list(frameworks))}
    avail = list(root["cols"].keys())  # features that can be parents
    owner = {c: root["name"] for c in avail}
    ngroups = rng.randint(2, 5) if single_parent else rng.randint(1, 3)
    groups = []
    nfeat_total = rng.randint(1, max_feats)
    k = 0
    for g in range(ngroups):
        gname = f"G{uid}_{g}"
        gfw = rng.choice(list(frameworks)) if allow_multi_fw else root["fw"]
        feats: Dict[str, Any] = {}
        nf = 1 if single_parent else max(1, nfeat_total // ngroups + rng.randint(-1, 1))  # multi-framework chains: one feature per group
        for _ in range(nf):
            fname = f"d{uid}_{k}"
            k += 1
            np_ = 1 if single_parent else rng.choice([1, 1, 2, 2, 3])
            # parents: bias towards recent features (chains), same group (levels), and shared parents (diamonds)
            pool = avail
            parents = []
            for _ in range(np_):
                c = rng.choice(pool[-4:] if rng.random() < 0.6 else pool)
                if c not in parents:
                    parents.append(c)
            expr: Any = ["col", parents[0]]
            for q in parents[1:]:
                expr = [rng.choice(["add", "sub", "mul"]), expr, ["col", q]]
            if rng.random() < 0.3:
                expr = ["add", expr, ["const", rng.randint(1, 3)]]
            feats[fname] = {"parents": parents, "expr": expr}
            avail.append(fname)
            owner[fname] = gname
        groups.append({"name": gname, "fw": gfw, "features": feats})
    if interleave and len(groups) >= 2:
        # spread the features over the groups at random: groups may then depend on each other's features (no feature cycle)
        alldefs = [(f, d) for g in groups for f, d in g["features"].items()]
        for g in groups:
            g["features"] = {}
        for f, d in alldefs:
            rng.choice(groups)["features"][f] = d
        groups = [g for g in groups if g["features"]]
    derived = [f for g in groups for f in g["features"]]
    nreq = rng.randint(1, min(4, len(derived)))
    req_names = rng.sample(derived, nreq)
    if rng.random() < 0.4:
        req_names.append(rng.choice(list(root["cols"].keys())))
    request = []
    for n in req_names:
        opts: Dict[str, Any] = {}
        if allow_options and rng.random() < 0.2:
            opts = {"g": rng.randint(1, 2)}
        request.append({"name": n, "options": opts})
    return {"roots": [root], "groups": groups, "request": request}


def gen_chain_spec(rng: Any, frameworks: Sequence[str] = ("pa", "pd", "py"), extra: bool = True) -> Dict[str, Any]:
    """A linear multi-framework chain: root on fw0, then one single-feature group per link of the chain, each depending on
    the previous feature; every framework is used by at most one contiguous stretch of the chain (no A -> B -> A, never two
    transform steps to the same framework) - the shapes for which the unchanged planner hands every consumer the right
    compute-framework object.  With `extra`, groups on the same framework as their parent are inserted (no transform)."""
    uid = F.uniq("")
    nrows = rng.randint(1, 4)
    fws = list(frameworks)
    rng.shuffle(fws)
    fws = fws[: rng.randint(2, len(fws))]
    root = {"name": f"R{uid}", "cols": {f"r{uid}_{i}": [rng.randint(-5, 9) for _ in range(nrows)] for i in range(rng.randint(1, 2))}, "fw": fws[0]}
    groups = []
    prev = rng.choice(list(root["cols"]))
    k = 0
    for fw in fws:
        reps = rng.randint(1, 2) if extra else 1
        if fw == fws[0]:
            reps = rng.randint(0, 1) if extra else 0
        for _ in range(reps):
            f = f"d{uid}_{k}"
            expr: Any = ["col", prev]
            if rng.random() < 0.7:
                expr = [rng.choice(["add", "mul", "sub"]), expr, ["const", rng.randint(1, 3)]]
            groups.append({"name": f"G{uid}_{k}", "fw": fw, "features": {f: {"parents": [prev], "expr": expr}}})
            prev = f
            k += 1
    derived = [f for g in groups for f in g["features"]]
    req = [derived[-1]] + [x for x in derived[:-1] if rng.random() < 0.3]
    if rng.random() < 0.3:
        req.append(rng.choice(list(root["cols"])))
    return {"roots": [root], "groups": groups, "request": [{"name": n, "options": {}} for n in req]}


def build_classes(spec: Dict[str, Any], hooks: Optional[Dict[str, Any]] = None) -> Dict[str, Any]:
    classes: Dict[str, Any] = {}
    for r in spec["roots"]:
        classes[r["name"]] = F.make_group(r["name"], root_data=r["cols"], frameworks={F.FW_SHORT[r["fw"]]}, hooks=hooks)
    for g in spec["groups"]:
        classes[g["name"]] = F.make_group(g["name"], derived=g["features"], frameworks={F.FW_SHORT[g["fw"]]}, hooks=hooks, inplace=g.get("style", bool(spec.get("inplace"))))
    return classes


def features_of(spec: Dict[str, Any]) -> List[Any]:
    from mloda.core.abstract_plugins.components.data_types import DataType

    out = []
    for r in spec["request"]:
        kw: Dict[str, Any] = {}
        if r.get("options"):
            kw["options"] = dict(r["options"])
        if r.get("dtype"):
            kw["data_type"] = DataType[r["dtype"]]
        out.append(Feature(r["name"], **kw))
    return out


def add_declared_types(rng: Any, spec: Dict[str, Any]) -> None:
    """Declare numeric types (all compatible with the produced integer columns under the lenient table) on some requested
    features and request further columns of the same group with other declared types and without one."""
    names = {r["name"] for r in spec["request"]}
    root = spec["roots"][0]
    for c in root["cols"]:
        if c not in names and rng.random() < 0.8:
            spec["request"].append({"name": c, "options": {}})
    for r in spec["request"]:
        if not r["options"]:
            r["dtype"] = rng.choice([None, "INT64", "INT32", "DOUBLE"])


def frameworks_of(spec: Dict[str, Any]) -> Set[Any]:
    return {F.FW_SHORT[x["fw"]] for x in spec["roots"] + spec["groups"]}


def prepare(spec: Dict[str, Any], classes: Dict[str, Any], **kw: Any) -> Any:
    return mloda.prepare(features_of(spec), compute_frameworks=frameworks_of(spec), plugin_collector=F.collector(set(classes.values())), **kw)


# ------------------------------------------------------------------------------------------------
# reference evaluation (independent of mloda and of the Lean model)


def reference(spec: Dict[str, Any]) -> Dict[str, List[Any]]:
    cols: Dict[str, List[Any]] = {}
    for r in spec["roots"]:
        cols.update({c: list(v) for c, v in r["cols"].items()})
    defs = {f: d for g in spec["groups"] for f, d in g["features"].items()}
    nrows = len(next(iter(cols.values())))

    def val(f: str) -> List[Any]:
        if f in cols:
            return cols[f]
        d = defs[f]
        for p_ in d["parents"]:
            val(p_)
        out = []
        for i in range(nrows):
            row = {p_: cols[p_][i] for p_ in F.expr_cols(d["expr"])}
            out.append(F.eval_expr(d["expr"], row))
        cols[f] = out
        return out

    for f in defs:
        val(f)
    return cols


def mutual_groups(spec: Dict[str, Any]) -> bool:
    """Two feature groups each of which has a feature with an ancestor in the other (the feature graph itself is acyclic)."""
    owner = {f: g["name"] for g in spec.get("groups", []) for f in g["features"]}
    dep: Set[Tuple[str, str]] = set()
    for f, g in owner.items():
        for a in ancestors(spec, f):
            if a in owner and owner[a] != g:
                dep.add((g, owner[a]))
    return any((b, a) in dep for a, b in dep)


def closure(spec: Dict[str, Any]) -> Set[str]:
    defs = {f: d for g in spec["groups"] for f, d in g["features"].items()}
    seen: Set[str] = set()

    def go(f: str) -> None:
        if f in seen:
            return
        seen.add(f)
        for p_ in defs.get(f, {}).get("parents", []):
            go(p_)

    for r in spec["request"]:
        go(r["name"])
    return seen


def ancestors(spec: Dict[str, Any], f: str) -> Set[str]:
    defs = {f_: d for g in spec["groups"] for f_, d in g["features"].items()}
    out: Set[str] = set()

    def go(x: str) -> None:
        for p_ in defs.get(x, {}).get("parents", []):
            if p_ not in out:
                out.add(p_)
                go(p_)

    go(f)
    return out


# ------------------------------------------------------------------------------------------------
# plan export


def export_plan(session: Any) -> Dict[str, Any]:
    """Canonical JSON of the prepared plan: uuids renamed to small ints in order of first occurrence."""
    ids: Dict[Any, int] = {}

    def rid(u: Any) -> int:
        if u not in ids:
            ids[u] = len(ids)
        return ids[u]

    plan = session.engine.execution_planner
    steps = []
    step_uuid_to_idx: Dict[str, int] = {}
    for idx, st in enumerate(plan):
        step_uuid_to_idx[str(st.uuid)] = idx
        if isinstance(st, FeatureGroupStep):
            kind = "fg"
            feats = sorted(st.features.features, key=lambda f: (str(f.name), str(f.uuid)))
            outs = [rid(f.uuid) for f in st.features.features]  # the set's real iteration order
            d = {
                "kind": kind,
                "outs": outs,
                "req": [rid(u) for u in st.required_uuids],
                "result": bool(st.features.get_initial_requested_features()),
                "group": st.feature_group.__name__,
                "features": sorted(str(f.name) for f in feats),
                "fw": st.compute_framework.__name__,
                "children_if_root": sorted(rid(u) for u in st.children_if_root),
                "need_to_upload": bool(st.need_to_upload),
                "tfs_ids": sorted(rid(u) for u in st.tfs_ids),
            }
        elif isinstance(st, TransformFrameworkStep):
            d = {"kind": "tfs", "outs": [rid(u) for u in st.get_uuids()], "req": [rid(u) for u in st.required_uuids], "result": False,
                 "from": st.from_framework.__name__, "to": st.to_framework.__name__, "link": rid(st.link_id) if st.link_id else None}  # fmt: skip
        elif isinstance(st, JoinStep):
            d = {"kind": "join", "outs": [rid(u) for u in st.get_uuids()], "req": [rid(u) for u in st.required_uuids], "result": False,
                 "left": st.left_framework.__name__, "right": st.right_framework.__name__, "jointype": st.link.jointype.name,
                 "left_uuids": sorted(rid(u) for u in st.left_framework_uuids), "right_uuids": sorted(rid(u) for u in st.right_framework_uuids)}  # fmt: skip
        else:
            d = {"kind": "?", "outs": [], "req": []}
        steps.append(d)
    parents = [[rid(c), sorted(rid(p_) for p_ in ps)] for c, ps in session.engine.feature_link_parents.items()]
    names: Dict[int, str] = {}
    for st in plan:
        if isinstance(st, FeatureGroupStep):
            for f in st.features.features:
                names[rid(f.uuid)] = str(f.name)
    return {"steps": steps, "parents": parents, "names": {str(k): v for k, v in names.items()}, "_step_uuid_to_idx": step_uuid_to_idx}


def canon_plan(exp: Dict[str, Any]) -> Any:
    """Label-based canonical form, independent of uuids, of the order of independent steps and of *which* uuid of a
    producing step a requirement names: every step gets a label built from stable names, every required uuid is replaced
    by the label of the step that produces it (a set), and the steps are sorted."""
    steps = exp["steps"]
    names = exp["names"]
    prod: Dict[int, int] = {}
    for i, st in enumerate(steps):
        for u in st["outs"]:
            prod[u] = i
    memo: Dict[int, str] = {}

    def label(i: int, depth: int = 0) -> str:
        if i in memo:
            return memo[i]
        st = steps[i]
        if st["kind"] == "fg":
            lab = f"fg:{st['group']}:{st['fw']}:" + ",".join(st["features"])
        elif depth > 6:
            lab = st["kind"]
        elif st["kind"] == "tfs":
            lab = f"tfs:{st['from']}>{st['to']}:[" + "|".join(sorted({label(prod[r], depth + 1) for r in st["req"] if r in prod and steps[prod[r]]["kind"] == "fg"})) + "]"
        else:
            lu = sorted({names.get(str(x), "?") for x in st["left_uuids"]})
            ru = sorted({names.get(str(x), "?") for x in st["right_uuids"]})
            lab = f"join:{st['jointype']}:{st['left']}<{st['right']}:" + ",".join(lu) + "|" + ",".join(ru)
        memo[i] = lab
        return lab

    out = []
    for i, st in enumerate(steps):
        reqs = sorted({label(prod[r]) if r in prod else "dangling" for r in st["req"]})
        out.append([label(i), reqs, bool(st.get("result", False))])
    return sorted(out, key=lambda x: json.dumps(x))


def lean_plan(exp: Dict[str, Any]) -> Dict[str, Any]:
    return {"steps": [{"kind": s["kind"], "outs": s["outs"], "req": s["req"], "result": s.get("result", False)} for s in exp["steps"]], "parents": exp["parents"]}


# ------------------------------------------------------------------------------------------------
# running with observation


class RunResult:
    def __init__(self) -> None:
        self.results: Optional[List[Any]] = None
        self.error: Optional[str] = None
        self.error_type: Optional[str] = None
        self.events: List[Dict[str, Any]] = []
        self.wall = 0.0
        self.timed_out = False
        self.yielded: List[Any] = []
        self.exc: Optional[BaseException] = None  # the raised exception object itself (a caller may keep it, with its traceback, as long as it likes)


def read_events(path: str) -> List[Dict[str, Any]]:
    evs = []
    try:
        with open(path) as f:
            for line in f:
                line = line.strip()
                if line:
                    try:
                        evs.append(json.loads(line))
                    except Exception:
                        pass
    except FileNotFoundError:
        pass
    evs.sort(key=lambda e: e.get("t", 0))
    return evs


def kill_stray_children() -> None:
    """Terminate child processes of this check other than its flight server (left behind by a run that hung)."""
    import multiprocessing

    keep = _flight.flight_server_process.pid if (_flight is not None and _flight.flight_server_process is not None) else None
    for ch in multiprocessing.active_children():
        if ch.pid != keep:
            try:
                ch.terminate()
                ch.join(2)
                if ch.is_alive():
                    ch.kill()
            except Exception:
                pass


def guarded(fn: Any, timeout: float) -> Tuple[bool, Any]:
    """Run fn() in a helper thread; (finished, result-or-exception)."""
    box: Dict[str, Any] = {}

    def target() -> None:
        try:
            box["r"] = fn()
        except BaseException as e:  # noqa
            box["e"] = e

    th = threading.Thread(target=target, daemon=True)
    th.start()
    th.join(timeout)
    if th.is_alive():
        return False, None
    if "e" in box:
        return True, box["e"]
    return True, box.get("r")


FLAKES: Dict[str, Any] = {"hangs_retried": 0, "stacks": []}


def run_session(session: Any, mode: str, api_data: Any = None, extenders: Any = None, stream: bool = False, consume: Optional[int] = None, timeout: float = 60.0,
                attempts: int = 3) -> RunResult:  # fmt: skip
    """Run a prepared session in one mode, with step observers on and a watchdog (the run happens in a helper thread so a
    spinning orchestrator is reported as a timeout instead of hanging the check).  A run that does not end is repeated:
    a deterministic spin (a logic error) hangs every time and is reported as `timed_out`; a hang that does not reproduce
    (fork of the manager / worker processes from a multi-threaded parent can deadlock the child - an OS-level hazard of
    fork+threads, more likely under load) is counted in FLAKES and not reported."""
    rr = _run_session_once(session, mode, api_data, extenders, stream, consume, timeout)
    n = 1
    while rr.timed_out and n < attempts:
        kill_stray_children()
        FLAKES["hangs_retried"] += 1
        rr = _run_session_once(session, mode, api_data, extenders, stream, consume, timeout)
        n += 1
    if rr.timed_out:
        kill_stray_children()
    return rr


def _run_session_once(session: Any, mode: str, api_data: Any, extenders: Any, stream: bool, consume: Optional[int], timeout: float) -> RunResult:
    install_step_observers()
    rr = RunResult()
    fd, path = tempfile.mkstemp(prefix="verif_ev_", suffix=".jsonl")
    os.close(fd)
    os.environ[F.LOG_ENV] = path
    fs = flight_server() if mode == "mp" else None
    kw: Dict[str, Any] = {"parallelization_modes": {MODES[mode]}, "flight_server": fs, "function_extender": extenders}
    if api_data is not None:
        kw["api_data"] = api_data
    box: Dict[str, Any] = {}

    def target() -> None:
        try:
            if stream:
                gen = session.stream_run(**kw)
                out = []
                try:
                    for item in gen:
                        out.append(item)
                        if consume is not None and len(out) >= consume:
                            break
                finally:
                    gen.close()
                box["yielded"] = out
            else:
                box["results"] = session.run(**kw)
        except BaseException as e:  # noqa
            box["error"] = "".join(str(a) for a in e.args) if e.args else repr(e)
            box["error_type"] = type(e).__name__
            box["exc"] = e

    t0 = time.time()
    th = threading.Thread(target=target, daemon=True)
    th.start()
    th.join(timeout)
    rr.wall = time.time() - t0
    if th.is_alive():
        rr.timed_out = True
        try:  # where does the run thread hang?  (kept in the evidence for diagnosis)
            import sys as _sys
            import traceback as _tb

            fr = _sys._current_frames().get(th.ident)
            if fr is not None and len(FLAKES["stacks"]) < 5:
                import multiprocessing as _mp

                kids = []
                for ch in _mp.active_children():
                    try:
                        wchan = open(f"/proc/{ch.pid}/wchan").read().strip()
                        state = [l for l in open(f"/proc/{ch.pid}/status").read().splitlines() if l.startswith("State")][0]
                        nthreads = len(os.listdir(f"/proc/{ch.pid}/task"))
                        kids.append({"name": ch.name, "wchan": wchan, "state": state, "threads": nthreads})
                    except Exception:
                        pass
                FLAKES["stacks"].append({"mode": mode, "stream": stream, "children": kids,
                                         "features": sorted(str(f.name) for f in getattr(session, "features", []))[:8],
                                         "stack": [f"{f.filename.split('/')[-1]}:{f.lineno}:{f.name}" for f in _tb.extract_stack(fr)][-4:]})
        except Exception:
            pass
    rr.results = box.get("results")
    rr.yielded = box.get("yielded", [])
    rr.error = box.get("error")
    rr.error_type = box.get("error_type")
    rr.exc = box.get("exc")
    time.sleep(0.002)
    rr.events = read_events(path)
    try:
        os.unlink(path)
    except OSError:
        pass
    os.environ.pop(F.LOG_ENV, None)
    if mode == "mp":
        # a MULTIPROCESSING run leaves its queues / manager proxies (pipes) to the garbage collector; thousands of such runs in one
        # check process (thorough tier) otherwise run into the file-descriptor limit before a collection happens
        import gc

        gc.collect()
    return rr


def obs_of(exp: Dict[str, Any], events: List[Dict[str, Any]]) -> List[List[Any]]:
    m = exp["_step_uuid_to_idx"]
    out = []
    for e in events:
        if e.get("ev") in ("sbegin", "send", "sfail") and e.get("step") in m:
            out.append([{"sbegin": "b", "send": "f", "sfail": "x"}[e["ev"]], m[e["step"]]])
    return out


def overlap_on_shared_fw(exp: Dict[str, Any], events: List[Dict[str, Any]]) -> bool:
    """True when two FEATURE-GROUP steps on the same compute framework were open at the same time (input class of the known
    THREADING lost-update finding: concurrently running calculations that were handed the same compute-framework object).
    Join and transform steps do not count: the planner serialises joins that touch the same frameworks."""
    steps = exp["steps"]
    open_: Set[int] = set()
    for k, i in obs_of(exp, events):
        if steps[i]["kind"] != "fg":
            continue
        if k == "b":
            for j in open_:
                if steps[j].get("fw") == steps[i].get("fw"):
                    return True
            open_.add(i)
        else:
            open_.discard(i)
    return False


def overlap_all_in_place(spec: Dict[str, Any], exp: Dict[str, Any], events: List[Dict[str, Any]]) -> bool:
    """True when every pair of feature-group steps that overlapped on a shared framework object belongs to Pandas groups that
    write their column into the shared frame itself (style in place / Series): no step replaces the object, so the
    lost-update finding's input class (a step writing back ITS OWN COPY of the data) does not apply."""
    style = {g["name"]: g.get("style", bool(spec.get("inplace"))) for g in spec.get("groups", [])}
    steps = exp["steps"]
    open_: Set[int] = set()
    for k, i in obs_of(exp, events):
        if steps[i]["kind"] != "fg":
            continue
        if k == "b":
            for j in open_:
                if steps[j].get("fw") == steps[i].get("fw"):
                    if steps[i].get("fw") != "PandasDataFrame" or not style.get(steps[i].get("group")) or not style.get(steps[j].get("group")):
                        return False
            open_.add(i)
        else:
            open_.discard(i)
    return True


def mp_unuploaded_tfs_source(exp: Dict[str, Any]) -> bool:
    """Input class of a known MULTIPROCESSING defect: a transform step reads (downloads) the data of a producer step that the
    planner did not mark `need_to_upload` - the mark is keyed by the producer FeatureSet's arbitrary representative
    (`features.any_uuid`), so with several features in the producer step it is missed whenever the consumer's parent is not
    that representative."""
    prod = {u: st for st in exp["steps"] if st["kind"] == "fg" for u in st["outs"]}
    for st in exp["steps"]:
        if st["kind"] == "tfs":
            for r in st["req"]:
                p_ = prod.get(r)
                if p_ is not None and not p_.get("need_to_upload"):
                    return True
    return False


def tables_canon(results: Optional[List[Any]], sort_rows: bool = False) -> Any:
    """Canonical form of a list of result tables: a sorted list of tables, each a sorted list of (column, values).
    With sort_rows the rows of each table are sorted too (join results have no defined row order)."""
    if results is None:
        return None
    out = []
    for r in results:
        cols = F.to_columns(r)
        names = sorted(cols)
        if sort_rows and names:
            n = len(cols[names[0]])
            rows = sorted([[cols[c][i] for c in names] for i in range(n)], key=lambda x: json.dumps(x, default=str))
            out.append([[c, [row[j] for row in rows]] for j, c in enumerate(names)])
        else:
            out.append([[c, cols[c]] for c in names])
    return sorted(out, key=lambda x: json.dumps(x, default=str))


# ------------------------------------------------------------------------------------------------
# requests with links (joins): sources with an index column each, one consumer of value columns of all sources


def gen_link_spec(rng: Any, frameworks: Sequence[str] = ("pa", "pd", "py"), nsrc: Optional[int] = None, jointypes: Sequence[str] = ("inner", "left", "outer", "right")) -> Dict[str, Any]:
    uid = F.uniq("")
    n = nsrc or rng.choice([2, 2, 2, 3])
    same_fw = rng.random() < 0.5
    fw0 = rng.choice(list(frameworks))
    srcs = []
    for i in range(n):
        nrows = rng.randint(1, 4)
        keys = [rng.choice([1, 2, 3, 4]) for _ in range(nrows)]
        if rng.random() < 0.6:
            keys = sorted(set(keys))  # unique keys most of the time
        kname = f"k{uid}" if rng.random() < 0.5 else f"k{uid}_{i}"
        srcs.append({"name": f"S{uid}_{i}", "fw": fw0 if same_fw else rng.choice(list(frameworks)), "key": kname,
                     "cols": {kname: keys, f"v{uid}_{i}": [rng.randint(0, 9) * (10 ** i) for _ in keys]}})  # fmt: skip
    links = []
    shape = rng.choice(["chain", "star"]) if n == 3 else "pair"
    pairs = [(0, 1)] if n == 2 else ([(0, 1), (1, 2)] if shape == "chain" else [(0, 1), (0, 2)])
    for a, b in pairs:
        if rng.random() < 0.3:
            a, b = b, a
        links.append({"type": rng.choice(list(jointypes)), "left": a, "right": b})
    consumer = {"name": f"Z{uid}", "fw": fw0 if same_fw else rng.choice(list(frameworks)), "feature": f"z{uid}",
                "parents": [f"v{uid}_{i}" for i in range(n)]}  # fmt: skip
    return {"sources": srcs, "links": links, "consumer": consumer}


def gen_long_chain_spec(rng: Any) -> Dict[str, Any]:
    """Four or five sources, each on its own compute framework, joined by a chain of inner links S1 <- S2 <- ... <- Sn that are all
    oriented the same way, the consumer on the framework of the chain's head: the many-link shape for which the unchanged
    planner is deterministic (link order relation with three and more chained entries)."""
    uid = F.uniq("")
    n = rng.choice([4, 5, 5])
    fws = ["pa", "pa2", "pa3", "pa4", "pa5"]
    rng.shuffle(fws)
    keys = rng.sample([1, 2, 3, 4, 5, 6], rng.randint(1, 4))
    srcs = []
    for i in range(n):
        ks = list(keys)
        rng.shuffle(ks)
        srcs.append({"name": f"S{uid}_{i}", "fw": fws[i], "key": f"k{uid}", "cols": {f"k{uid}": ks, f"v{uid}_{i}": [rng.randint(0, 9) * (10 ** i) for _ in ks]}})
    forward = rng.random() < 0.5
    links = [{"type": "inner", "left": i if forward else i + 1, "right": i + 1 if forward else i} for i in range(n - 1)]
    rng.shuffle(links)
    consumer = {"name": f"Z{uid}", "fw": fws[0] if forward else fws[n - 1], "feature": f"z{uid}", "parents": [f"v{uid}_{i}" for i in range(n)]}
    return {"sources": srcs, "links": links, "consumer": consumer, "longchain": True}


def gen_star_spec(rng: Any) -> Dict[str, Any]:
    """Three sources: one left source on framework X, two right sources on another framework Y, consumer on X, inner/left links
    from the left source to each right source - a three-source shape the unchanged planner handles in every mode."""
    spec = gen_link_spec(rng, frameworks=("pa", "pd"), nsrc=3, jointypes=("inner", "left"))
    fx, fy = rng.sample(["pa", "pd"], 2)
    spec["sources"][0]["fw"] = fx
    spec["sources"][1]["fw"] = fy
    spec["sources"][2]["fw"] = fy
    spec["consumer"]["fw"] = fx
    spec["links"] = [{"type": rng.choice(["inner", "left"]), "left": 0, "right": 1}, {"type": rng.choice(["inner", "left"]), "left": 0, "right": 2}]
    for s_ in spec["sources"]:
        # unique keys and distinct key names keep the three tables' columns apart
        k = s_["key"]
        vals = sorted(set(s_["cols"][k])) or [1]
        other = [c for c in s_["cols"] if c != k][0]
        s_["cols"] = {k: vals, other: s_["cols"][other][: len(vals)] + [0] * max(0, len(vals) - len(s_["cols"][other]))}
    for i, s_ in enumerate(spec["sources"]):
        k = s_["key"]
        nk = f"{k.split('_')[0]}_s{i}"
        s_["cols"] = {(nk if c == k else c): v for c, v in s_["cols"].items()}
        s_["key"] = nk
    spec["star"] = True
    return spec


def build_link_request(spec: Dict[str, Any], hooks: Optional[Dict[str, Any]] = None, extra_fn: Any = None) -> Tuple[Dict[str, Any], Set[Any], List[Any], Set[Any]]:
    from mloda.core.abstract_plugins.components.link import Link, JoinSpec
    from mloda.core.abstract_plugins.components.index.index import Index

    classes: Dict[str, Any] = {}
    for s in spec["sources"]:
        classes[s["name"]] = F.make_group(s["name"], root_data=s["cols"], index_columns=[(s["key"],)], frameworks={F.FW_SHORT[s["fw"]]}, hooks=hooks,
                                          extra=extra_fn(s["name"]) if extra_fn else None)
    c = spec["consumer"]
    for g in link_groups(spec):
        classes[g["name"]] = F.make_group(g["name"], derived=g["features"], frameworks={F.FW_SHORT[g["fw"]]}, hooks=hooks, inplace=g.get("style", bool(spec.get("inplace"))),
                                          extra=extra_fn(g["name"]) if extra_fn else None)
    links = set()
    for l in spec["links"]:
        a, b = spec["sources"][l["left"]], spec["sources"][l["right"]]
        links.add(getattr(Link, l["type"])(JoinSpec(classes[a["name"]], Index((a["key"],))), JoinSpec(classes[b["name"]], Index((b["key"],)))))
    fws = {F.FW_SHORT[s["fw"]] for s in spec["sources"]} | {F.FW_SHORT[c["fw"]]}
    feats = features_of(spec) if "request" in spec else [c["feature"]]
    return classes, links, feats, fws


def prepare_link(spec: Dict[str, Any], hooks: Optional[Dict[str, Any]] = None, extra_fn: Any = None, **kw: Any) -> Any:
    classes, links, feats, fws = build_link_request(spec, hooks, extra_fn)
    return mloda.prepare(list(feats), compute_frameworks=fws, links=links, plugin_collector=F.collector(set(classes.values())), **kw)


def gen_join_dag_spec(rng: Any, frameworks: Sequence[str] = ("pd", "pa", "py")) -> Dict[str, Any]:
    """A join in the middle of a DAG: two sources (same framework, or the right one elsewhere), one link, a consumer group whose
    features depend on different subsets of the two sources (x on both, y on one side only, ...) and further groups on top
    of the consumer's features.  The key sets of the sources coincide (arithmetic on the joined rows never meets a null)."""
    uid = F.uniq("")
    fw = rng.choice(list(frameworks))
    fw_r = fw if rng.random() < 0.7 else rng.choice(list(frameworks))
    nrows = rng.randint(1, 4)
    keys = rng.sample([1, 2, 3, 4, 5, 6], nrows)
    srcs = []
    for i in range(2):
        ks = list(keys)
        rng.shuffle(ks)
        kname = f"k{uid}_{i}"
        cols = {kname: ks}
        for j in range(rng.randint(1, 2)):
            cols[f"v{uid}_{i}{j}"] = [rng.randint(0, 9) for _ in ks]
        srcs.append({"name": f"S{uid}_{i}", "fw": fw if i == 0 else fw_r, "key": kname, "cols": cols})
    vals = [[c for c in s_["cols"] if c != s_["key"]] for s_ in srcs]
    feats: Dict[str, Any] = {}

    def mk(parents: List[str]) -> Dict[str, Any]:
        expr: Any = ["col", parents[0]]
        for q in parents[1:]:
            expr = [rng.choice(["add", "sub"]), expr, ["col", q]]
        if rng.random() < 0.5:
            expr = ["add", expr, ["const", rng.randint(1, 5)]]
        return {"parents": parents, "expr": expr}

    feats[f"x{uid}"] = mk([rng.choice(vals[0]), rng.choice(vals[1])])
    for j in range(rng.randint(0, 2)):
        side = rng.choice([0, 1, 1])
        feats[f"y{uid}_{j}"] = mk([rng.choice(vals[side])]) if rng.random() < 0.7 else mk([rng.choice(vals[0]), rng.choice(vals[1])])
    consumer = {"name": f"Z{uid}", "fw": fw, "features": feats}
    tops = []
    avail = list(feats)
    prev_top = f"x{uid}"
    for k in range(rng.randint(0, 3)):
        f = f"w{uid}_{k}"
        par = [prev_top] if rng.random() < 0.6 else [rng.choice(avail)]
        if rng.random() < 0.3 and len(avail) > 1:
            par = par + [rng.choice([a for a in avail if a not in par])]
        tops.append({"name": f"T{uid}_{k}", "fw": fw, "features": {f: mk(par)}})
        avail.append(f)
        prev_top = f
    req = [avail[-1]] + [a for a in avail[:-1] if rng.random() < 0.5]
    link = {"type": rng.choice(["inner", "left", "outer"]), "left": 0, "right": 1}
    return {"sources": srcs, "links": [link], "consumer": consumer, "tops": tops, "request": [{"name": n, "options": {}} for n in req], "joindag": True}


def link_groups(spec: Dict[str, Any]) -> List[Dict[str, Any]]:
    """The derived groups of a link spec in the shape of a link-free spec's `groups` (name, fw, features)."""
    c = spec["consumer"]
    if "features" in c:
        feats = c["features"]
    else:
        expr: Any = ["col", c["parents"][0]]
        for q in c["parents"][1:]:
            expr = ["add", expr, ["col", q]]
        feats = {c["feature"]: {"parents": c["parents"], "expr": expr}}
    return [{"name": c["name"], "fw": c["fw"], "features": feats}] + list(spec.get("tops", []))


def jd_sides(spec: Dict[str, Any]) -> Dict[str, Set[int]]:
    """For every derived feature of a join-DAG spec: the set of sources (0 = left, 1 = right of the link) it descends from."""
    src_of = {c: i for i, s_ in enumerate(spec["sources"]) for c in s_["cols"]}
    defs = {f: d for g in link_groups(spec) for f, d in g["features"].items()}
    memo: Dict[str, Set[int]] = {}

    def sides(f: str) -> Set[int]:
        if f in src_of:
            return {src_of[f]}
        if f not in memo:
            memo[f] = set().union(*[sides(p_) for p_ in defs[f]["parents"]])
        return memo[f]

    return {f: sides(f) for f in defs}


def jd_partial_right(spec: Dict[str, Any]) -> bool:
    """The consumer group of the join computes, next to a feature over both sources, a feature that descends from the right
    source only (input class of known findings: such a feature is calculated on the joined left object although it is a
    descendant of the right object only)."""
    sd = jd_sides(spec)
    right = spec["links"][0]["right"]
    cons = spec["consumer"]["features"]
    return any(sd[f] == {right} for f in cons) and any(len(sd[f]) == 2 for f in cons)


def jd_top_on_right_only(spec: Dict[str, Any]) -> bool:
    """... and a later group consumes that right-only feature."""
    if not jd_partial_right(spec):
        return False
    sd = jd_sides(spec)
    right = spec["links"][0]["right"]
    cons = spec["consumer"]["features"]
    return any(p_ in cons and sd[p_] == {right} for t in spec.get("tops", []) for d in t["features"].values() for p_ in d["parents"])


def join_reference(spec: Dict[str, Any]) -> Dict[str, List[Any]]:
    """Reference values of a join-DAG spec (two sources whose key sets coincide and are unique): rows keyed by the join key."""
    a, b = spec["sources"]
    rows: Dict[Any, Dict[str, Any]] = {}
    for s_ in (a, b):
        for i, k in enumerate(s_["cols"][s_["key"]]):
            rows.setdefault(k, {}).update({c: v[i] for c, v in s_["cols"].items()})
    defs = {f: d for g in link_groups(spec) for f, d in g["features"].items()}

    def val(row: Dict[str, Any], f: str) -> Any:
        if f not in row:
            for p_ in defs[f]["parents"]:
                val(row, p_)
            row[f] = F.eval_expr(defs[f]["expr"], row)
        return row[f]

    out: Dict[str, List[Any]] = {}
    for k in sorted(rows):
        for f in defs:
            out.setdefault(f, []).append(val(rows[k], f))
        out.setdefault("__key__", []).append(k)
    return out


def gen_units_spec(rng: Any, nunits: int = 2, frameworks: Sequence[str] = ("pa", "pd")) -> Dict[str, Any]:
    """Several independent join units (two sources, one link, one consumer each) requested together."""
    units = []
    for _ in range(nunits):
        u = gen_link_spec(rng, frameworks=frameworks, nsrc=2, jointypes=("inner", "left", "outer"))
        # make the unit cross-framework with the consumer on the left source's framework (the shape that works on the unchanged tree)
        fa, fb = rng.sample(list(frameworks), 2) if len(frameworks) >= 2 else (frameworks[0], frameworks[0])
        l = u["links"][0]
        u["sources"][l["left"]]["fw"] = fa
        u["sources"][l["right"]]["fw"] = fb
        u["consumer"]["fw"] = fa
        units.append(u)
    return {"units": units}


def prepare_units(spec: Dict[str, Any], hooks: Optional[Dict[str, Any]] = None) -> Any:
    classes: Dict[str, Any] = {}
    links: Set[Any] = set()
    feats: List[Any] = []
    fws: Set[Any] = set()
    for u in spec["units"]:
        c, l, f, w = build_link_request(u, hooks)
        classes.update(c)
        links |= l
        feats += f
        fws |= w
    return mloda.prepare(list(feats), compute_frameworks=fws, links=links, plugin_collector=F.collector(set(classes.values())))
