#!/usr/bin/env python3
"""Regenerates known_findings.json (the committed known-findings file) from findings.d/*.json (per-property sources) and
keeps the 'fixed' list. Never run by a check."""
import glob, json, os
HERE = os.path.dirname(os.path.dirname(os.path.abspath(__file__)))
kf = json.load(open(os.path.join(HERE, "known_findings.json")))
own = [f for f in kf.get("findings", []) if f.get("_source") is None and not os.path.exists(os.path.join(HERE, "findings.d", f["property"] + ".json"))]
merged = {f["id"]: f for f in own}
for p in sorted(glob.glob(os.path.join(HERE, "findings.d", "C*.json"))):
    for f in json.load(open(p)).get("findings", []):
        g = dict(f)
        g["_source"] = os.path.relpath(p, HERE)
        merged[g["id"]] = g
kf["findings"] = sorted(merged.values(), key=lambda f: (f["property"], f["id"]))
json.dump(kf, open(os.path.join(HERE, "known_findings.json"), "w"), indent=1)
print(len(kf["findings"]), "open findings;", len(kf.get("fixed", [])), "fixed")
