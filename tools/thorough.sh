#!/bin/bash
# usage: tools/thorough.sh "C01 C02 ..."  - runs thorough tier of each check (parallel, SOAK_PAR at a time)
props=${1:-$(ls manifest.d | sed 's/.json//')}
mkdir -p /tmp/main/thorough
for p in $props; do
  ( /usr/bin/time -f "%e s" timeout 5600 ./check $p --tier thorough > /tmp/main/thorough/$p.log 2>&1; rc=$?; echo "$p rc=$rc | $(tail -2 /tmp/main/thorough/$p.log | tr '\n' ' ' | cut -c1-220)" ) &
  while [ $(jobs -r | wc -l) -ge ${SOAK_PAR:-3} ]; do sleep 1; done
done
wait
