#!/bin/bash
# usage: tools/soak.sh "C01 C02 ..." "0 1 2"   - runs every check with every seed (parallel), prints one line per run
props=${1:-$(ls manifest.d | sed 's/.json//')}
seeds=${2:-"0 1 2"}
mkdir -p /tmp/main/soak
for sd in $seeds; do
  for p in $props; do
    ( VERIF_SEED=$sd timeout 1200 ./check $p > /tmp/main/soak/$p.$sd.log 2>&1; rc=$?; echo "$p seed=$sd rc=$rc $(grep -c '^KNOWN-FINDING' /tmp/main/soak/$p.$sd.log) known | $(tail -1 /tmp/main/soak/$p.$sd.log | cut -c1-150)" ) &
    while [ $(jobs -r | wc -l) -ge ${SOAK_PAR:-4} ]; do sleep 0.5; done
  done
done
wait
