#!/usr/bin/env python3
"""Runs tools/eval_seed.sh for every seeded change in /tmp/seed/out and records the outcome under /verif/seeded/<name>/."""
import json, os, re, shutil, subprocess, sys, glob
from concurrent.futures import ThreadPoolExecutor
HERE = os.path.dirname(os.path.dirname(os.path.abspath(__file__)))
OUT = os.environ.get("SEED_DIR", "/tmp/seed/out")
EXTRA = {"C13_b": ["C13", "C07"], "C05_b": ["C05", "C12"], "C01_b_ported": ["C01", "C15"], "C15_b_ported": ["C15"], "C02_a": ["C02", "C15"]}
names = sorted(os.path.basename(p)[:-5] for p in glob.glob(OUT + "/C??_?.diff") + glob.glob(OUT + "/C??_?_ported.diff"))
names = [n for n in names if not (n in ("C01_b", "C15_b"))]  # replaced by their ports to HEAD
only = sys.argv[1:]
if only:
    names = [n for n in names if n in only]

def run(n):
    checks = EXTRA.get(n, [n[:3]])
    p = subprocess.run([os.path.join(HERE, "tools", "eval_seed.sh"), n, *checks], cwd=HERE, stdout=subprocess.PIPE, stderr=subprocess.STDOUT, text=True)
    return n, checks, p.stdout

with ThreadPoolExecutor(int(os.environ.get("SEED_PAR", "3"))) as ex:
    results = list(ex.map(run, names))
rows = []
for n, checks, out in results:
    prop = n[:3]
    d = os.path.join(HERE, "seeded", n)
    os.makedirs(d, exist_ok=True)
    shutil.copy(f"{OUT}/{n}.diff", f"{d}/patch.diff")
    if os.path.exists(f"{OUT}/demo_{n}.py"):
        shutil.copy(f"{OUT}/demo_{n}.py", f"{d}/demo.py")
    base = n.replace("_ported", "")
    src = {}
    if os.path.exists(f"{OUT}/{base}.json"):
        try:
            src = json.load(open(f"{OUT}/{base}.json"))
        except Exception:
            src = {}
    m = re.search(r"demo without=(\d+) with=(\d+) suite: passed=(\d+) baseline_missing=(\d+)", out)
    det = []
    for c in checks:
        hit = re.search(r"check %s seed=(\d+) rc=1 (VIOLATION[^\n]*)" % c, out)
        det.append({"check": c, "detected": bool(hit), "seed": int(hit.group(1)) if hit else None, "line": hit.group(2)[:300] if hit else None,
                    "rcs": re.findall(r"check %s seed=\d+ rc=(\d+)" % c, out)})
    meta = {
        "property": prop, "name": n,
        "summary": src.get("summary"), "needs": src.get("needs"), "files_touched": src.get("files_touched"),
        "written_by": "independent sub-agent given only the property text and a scratch worktree" + ("; ported by hand to HEAD after the fix: commits changed the same function" if n.endswith("_ported") else ""),
        "confirmed_in_scratch_worktree": {"demo_exit_without_change": int(m.group(1)) if m else None, "demo_exit_with_change": int(m.group(2)) if m else None,
                                          "suite_passed_with_change": int(m.group(3)) if m else None, "baseline_tests_missing_with_change": int(m.group(4)) if m else None},
        "checks_run": det,
        "ran": "tools/eval_seed.sh %s %s (scratch worktree of /repo HEAD + patch; demo without/with; pytest -n 8; ./check <id> seeds 0,1 with MLODA_REPO=<worktree>)" % (n, " ".join(checks)),
        "raw": out[-1500:],
    }
    json.dump(meta, open(f"{d}/meta.json", "w"), indent=1)
    rows.append((n, m.groups() if m else None, [(x["check"], x["detected"], x["seed"]) for x in det]))
    print(n, m.groups() if m else "NO-CONFIRM", [(x["check"], "DETECTED" if x["detected"] else "missed", x["rcs"]) for x in det], flush=True)
