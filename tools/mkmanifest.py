#!/usr/bin/env python3
"""Writes MANIFEST.json from the table below (kept in one place so it stays valid)."""
import json, os
HERE = os.path.dirname(os.path.dirname(os.path.abspath(__file__)))
BASE = json.load(open("/root/.vp/BASELINE.json"))["cmd"] if os.path.exists("/root/.vp/BASELINE.json") else "cd /repo && /venv/bin/python -m pytest -q"

import glob
CLAIMED = {}
for f in sorted(glob.glob(os.path.join(HERE, "manifest.d", "C*.json"))):
    d = json.load(open(f))
    CLAIMED[os.path.basename(f)[:-5]] = (d["technique"], d["text"], d["level_note"], d.get("design_ref", "DESIGN.md §6"))
REASON_NOT_YET = "check not built yet in this round (planned: Lean model + correspondence, see DESIGN.md §6)"
ALL = [f"C{i:02d}" for i in range(1, 21)]

checks = []
for pid, (tech, text, note, ref) in sorted(CLAIMED.items()):
    checks.append({
        "property_id": pid,
        "quick_cmd": f"./check {pid} --tier quick",
        "thorough_cmd": f"./check {pid} --tier thorough",
        "evidence_file": f"evidence/{pid}.json",
        "replay_cmd_template": f"./check {pid} --replay {{path}}",
        "engine": "lean-model+corr-harness",
        "level_claimed": {"category": "proof", "text": text, "design_ref": ref},
        "level_note": note,
        "technique": tech,
    })
m = {
 "version": 1,
 "setup_cmd": "/venv/bin/python harness/extract.py && cd lean && lake build",
 "hooks": {"guard": "MLODA_VERIF", "enable": "export MLODA_VERIF=1 (no hooks are compiled into /repo; all observation goes through public API and harness-side wrappers)",
           "baseline_off_cmd": BASE.replace(" --junitxml=<file>", ""), "source_commits": [], "add_only": True},
 "engines": [
  {"name": "lean-model", "path": "lean/", "serves_properties": sorted(CLAIMED), "kind_free_text": "Lean 4 models (Model/, Gen/ regenerated from /repo), property theorems (Props/), line-protocol driver"},
  {"name": "corr-harness", "path": "harness/", "serves_properties": sorted(CLAIMED), "kind_free_text": "Python correspondence harness: runs the real mloda code and the Lean driver on the same cases, independent oracle per property"},
 ],
 "checks": checks,
 "not_applicable": [{"property_id": p, "reason": REASON_NOT_YET} for p in ALL if p not in CLAIMED],
 "notes": "All checks: ./check <id> --tier quick|thorough. Exit 0 held / 1 VIOLATION / 2 harness error. See DESIGN.md.",
}
json.dump(m, open(os.path.join(HERE, "MANIFEST.json"), "w"), indent=1)
print("claimed", len(checks), "not_applicable", len(m["not_applicable"]))
