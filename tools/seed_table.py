#!/usr/bin/env python3
"""Prints the markdown table of seeded changes (from seeded/*/meta.json) for DESIGN.md section 0.6."""
import glob, json, os
HERE = os.path.dirname(os.path.dirname(os.path.abspath(__file__)))
rows = []
for f in sorted(glob.glob(os.path.join(HERE, "seeded", "*", "meta.json"))):
    m = json.load(open(f))
    det = []
    for c in m["checks_run"]:
        if c["detected"]:
            suite = ""
            if c.get("line") and "suite=" in c["line"]:
                suite = " (" + c["line"].split("suite=")[-1].split()[0] + ")"
            elif c.get("line") and "no-failing-input-found" in c["line"]:
                suite = " (model≠impl, no-failing-input-found)"
            det.append(c["check"] + suite)
    missed = [c["check"] for c in m["checks_run"] if not c["detected"]]
    conf = m["confirmed_in_scratch_worktree"]
    note = ""
    if conf.get("demo_exit_with_change") == 0:
        note = " — demo no longer fails at HEAD (neutralised by a fix: commit)"
    summ = (m.get("summary") or "").replace("\n", " ").replace("|", "/")
    rows.append(f"| {m['name']} | {summ[:170]} | {', '.join(det) or '—'} | {', '.join(missed) or ''}{note} |")
table = "| seed | change (summary by its author) | detected by (suite) | not detected by |\n|---|---|---|---|\n" + "\n".join(rows)
import sys
if "--inject" in sys.argv:
    # rewrite the block between the two markers in DESIGN.md
    d = os.path.join(HERE, "DESIGN.md")
    src = open(d).read()
    b, e = "<!-- SEEDTABLE:BEGIN -->", "<!-- SEEDTABLE:END -->"
    i, j = src.index(b), src.index(e)
    open(d, "w").write(src[: i + len(b)] + "\n" + table + "\n" + src[j:])
else:
    print(table)
