#!/usr/bin/env python3
"""Copies seeded/<name>/{patch.diff,demo.py,meta.json} back into $SEED_DIR (default /tmp/seed/out) in the layout
tools/eval_seed.sh and tools/seed_final.py expect, so that recorded changes can be re-evaluated against the current checks.
usage: tools/restage_seeds.py [name ...]   (default: all)"""
import json, os, shutil, sys, glob
HERE = os.path.dirname(os.path.dirname(os.path.abspath(__file__)))
OUT = os.environ.get("SEED_DIR", "/tmp/seed/out")
os.makedirs(OUT, exist_ok=True)
names = sys.argv[1:] or sorted(os.path.basename(os.path.dirname(p)) for p in glob.glob(os.path.join(HERE, "seeded", "*", "meta.json")))
for n in names:
    d = os.path.join(HERE, "seeded", n)
    shutil.copy(f"{d}/patch.diff", f"{OUT}/{n}.diff")
    if os.path.exists(f"{d}/demo.py"):
        shutil.copy(f"{d}/demo.py", f"{OUT}/demo_{n}.py")
    m = json.load(open(f"{d}/meta.json"))
    json.dump({k: m.get(k) for k in ("summary", "needs", "files_touched")}, open(f"{OUT}/{n.replace('_ported','')}.json", "w"), indent=1)
print("staged", len(names), "->", OUT)
