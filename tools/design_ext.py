#!/usr/bin/env python3
"""Assembles DESIGN.md's block of round-3 extension paragraphs (between the ROUND3_EXT markers) from the 'for DESIGN.md'
sections of the per-topic reports in reports/*_REPORT.md (written by the people who built the extensions)."""
import os, re
HERE = os.path.dirname(os.path.dirname(os.path.abspath(__file__)))
TOPICS = [("graph", "C01_graph"), ("life", "C09_life"), ("cfw", "C02_cfw"), ("links", "C04_links"), ("plan", "C04_plan"), ("engine", "C03_engine"), ("steps", "C06_steps"), ("gen_cfw", "C02_gen"), ("gen2", "C09_gen2 / C01_gen2"), ("gen3", "C04_gen2 / C04_gen3 / C15_gen2")]
out = []
for t, title in TOPICS:
    p = os.path.join(HERE, "reports", f"{t}_REPORT.md")
    if not os.path.exists(p):
        continue
    src = open(p).read()
    m = re.search(r"^##[^\n]*DESIGN[^\n]*\n(.*?)(?=^## |\Z)", src, flags=re.S | re.M)
    if not m:
        continue
    body = m.group(1).strip()
    out.append(f"**{title}** (full report: `reports/{t}_REPORT.md`)\n\n{body}\n")
d = os.path.join(HERE, "DESIGN.md")
s = open(d).read()
b, e = "<!-- ROUND3_EXT:BEGIN -->", "<!-- ROUND3_EXT:END -->"
if "@@ROUND3_EXT@@" in s:
    s = s.replace("@@ROUND3_EXT@@", b + "\n" + e)
i, j = s.index(b), s.index(e)
open(d, "w").write(s[: i + len(b)] + "\n" + "\n".join(out) + "\n" + s[j:])
print("topics:", [t for t, _ in TOPICS if os.path.exists(os.path.join(HERE, "reports", f"{t}_REPORT.md"))])
