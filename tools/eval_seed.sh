#!/bin/bash
# usage: tools/eval_seed.sh C07_a [check ids...]   - confirms a seeded change in a scratch worktree and runs the checks against it
# needs ${SEED_DIR:-/tmp/seed/out}/<name>.diff and demo_<name>.py
set -u
name=$1; shift
prop=${name%%_*}
checks=${@:-$prop}
out=/tmp/main/seedeval/$name; rm -rf $out; mkdir -p $out
wt=/tmp/main/seedwt_$name
git -C /repo worktree remove --force $wt >/dev/null 2>&1
git -C /repo worktree add -q --detach $wt HEAD || exit 3
cp ${SEED_DIR:-/tmp/seed/out}/demo_$name.py $wt/ 2>/dev/null
res="{\"name\":\"$name\""
# demo without the change
( cd $wt && PYTHONPATH=$wt timeout 300 /venv/bin/python demo_$name.py > $out/demo_without.log 2>&1 ); d0=$?
if ! git -C $wt apply ${SEED_DIR:-/tmp/seed/out}/$name.diff 2> $out/apply.log; then echo "$name: patch does not apply to HEAD"; cat $out/apply.log | head -3; git -C /repo worktree remove --force $wt; exit 4; fi
( cd $wt && PYTHONPATH=$wt timeout 300 /venv/bin/python demo_$name.py > $out/demo_with.log 2>&1 ); d1=$?
( cd $wt && /venv/bin/python -m pytest -q -p no:cacheprovider --timeout=900 --continue-on-collection-errors -n 8 --junitxml=$out/junit.xml > $out/pytest.log 2>&1 )
suite=$(python3 - $out/junit.xml <<'PY'
import json, sys, xml.etree.ElementTree as ET
b=set(json.load(open('/root/.vp/BASELINE.json'))['stable_pass'])
p=set()
for tc in ET.parse(sys.argv[1]).getroot().iter('testcase'):
    if not any(c.tag in ('failure','error','skipped') for c in tc): p.add(f"{tc.get('classname')}::{tc.get('name')}")
print(f"passed={len(p)} baseline_missing={len(b-p)}")
PY
)
echo "$name: demo without=$d0 with=$d1 suite: $suite"
for c in $checks; do
  for sd in 0 1; do
    MLODA_REPO=$wt VERIF_SEED=$sd timeout 1500 ./check $c > $out/check_$c.$sd.log 2>&1; rc=$?
    echo "   check $c seed=$sd rc=$rc $(grep -m1 -A1 '^VIOLATION' $out/check_$c.$sd.log | tr '\n' ' ' | cut -c1-260)"
    [ $rc -eq 1 ] && break
  done
done
git -C /repo worktree remove --force $wt
